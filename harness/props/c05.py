"""C05 -- names are bound to the declaration selected by the language's lexical scoping.

Generated scope trees (Python; JavaScript let/const/var) and multi-file Python import projects "from the
answer"; ground truth = the standard library's symtable (Python; cross-checked against the generator's own
resolver), CPython itself for what imported names denote (runtime probe), the generator's resolver for
JavaScript (cross-checked against node in the thorough tier); compared with the bindings lian stores in
semantic_p1/s2space_p1.  Second half: consistent renaming of one declaration with exactly the occurrences
bound to it must leave bindings, call graph, call paths and taint flows unchanged up to that name.
"""
import glob
import json
import os

from harness import common
from harness.common import Collector

ID = "C05"

RULE = ("(a) Python scope trees: module / functions / nested functions / classes / methods with assignments, augmented "
        "assignments, for / with / except-as targets, parameters, def, class, aliased imports (also inside if / for / "
        "try blocks), global / nonlocal and reads in 8 syntactic forms, all over the alphabet {x,y,z} (+ builtins and "
        "one undefined name), one identifier occurrence of interest per line; (b) 2-6-file Python projects (flat / "
        "package / sub-package layouts, alphabet {x,y,z,f,g}) with import m, import m as n, import p.m as n, from m "
        "import f [as g], from m import *, from p import m, from . import m, from .m import f, re-exports (plain and "
        "under alias), imports inside functions, imports of missing names; (c) JavaScript trees with var / let / "
        "const / function declarations / function expressions / arrows, parameters, if / else / while / for(let) / "
        "bare blocks, reads, writes (and calls in the renaming half); (d) renaming of one declaration + exactly the "
        "occurrences the oracle binds to it (Python trees with srcobj.get() / sink() plumbing and calls, generic "
        "Python trees, JavaScript trees) and comparison of bindings (as a relation between source positions and "
        "variable identities), P1 call graph, P3 call paths and taint flows of the two runs. Every occurrence's "
        "symbol_id in s2space_p1 is mapped to (unit, owning scope by GIR parent chain, name, line) and compared with "
        "the oracle. Non-trivial = some use's name is declared in >= 2 scopes that are ancestors-or-self of the use's "
        "scope or children of one (visible or sibling); for projects: a use of an import-bound name whose name is "
        "bound in >= 2 scopes / units of the project; for the renaming half: every judged pair. Distinct by source "
        "text (hashed).")

ASSUMPTIONS = [
    "Python ground truth: symtable.symtable() of the running CPython 3.12 (local/free/global/cell) -> owning scope; "
    "identity of a binding is (owning scope, name) because lian hoists Python declarations; the generator's own "
    "LEGB resolver must agree on every occurrence (disagreement = harness error)",
    "class-body reads of a class-local name are only generated after its first binding in that class body (before "
    "it the run-time lookup falls back to the global: not a lexical question)",
    "imports: module stems are unique, modules only import from modules earlier in a fixed order, a name bound by an "
    "import has no other binding in that scope -> what it denotes is static; the project resolver is checked against "
    "a real import of the project in a fresh CPython (module-level names) for every project in both tiers; a project "
    "on which they disagree (import cycles through a package __init__) is not judged (counted; > 1 % = harness error)",
    "a module-level name that is bound only through `global` in a function has no statement at module level a "
    "declaration row could come from: 'unresolved' is accepted as well as a unit-level row",
    "JavaScript ground truth: the generator's own resolver (script semantics, no function declarations inside blocks, "
    "no classes, no catch); cross-checked against node (if present) through probe scripts for every 4th tree in the "
    "thorough tier only; a unit-level ['global'] row is accepted for an undeclared name only if some assignment to "
    "that name really is undeclared",
    "declaration rows are located by GIR parent chains (nearest enclosing method_decl / class_decl; %unit_init = the "
    "unit, %class_sinit = its class), not by lian's scope tables; volume runs read the loader's memory with "
    "Loader.export() skipped, every 50th case is an unmodified run whose exported s2space_p1 bundles must equal the "
    "memory view (difference = harness error)",
    "uses of the synthetic names %this/%class/%vvN (including uses of a method's first parameter inside the method "
    "itself, which lian renames to %this) and the declaration rows themselves (def/class/parameter/import lines) are "
    "not compared; class-body reads are joined through their unique target name because class-body statements lose "
    "their line in %class_sinit",
    "the signature of a discrepancy is chosen among its applicable root-cause qualifiers: the most specific one "
    "that is an open known finding, else the most specific one; the renaming half only judges programs on which "
    "the binding half finds nothing (others are stepped over and counted per finding)",
]


def _helpers():
    from harness import c05_lian, c05_py, c05_pymulti, c05_js, c05_meta
    return c05_lian, c05_py, c05_pymulti, c05_js, c05_meta


# ---------------------------------------------------------------------------------------------
# one case

class Outcome:
    def __init__(self):
        self.discrepancies = []     # (sig tuple without ID, what)
        self.errors = []            # harness errors
        self.stats = {}
        self.nontrivial = False
        self.labels = set()

    def sigs(self):
        return [((ID,) + tuple(s), w) for s, w in self.discrepancies]


def check_case(case, export=False, want_labels=True):
    """Run one case (dict, see the replay files) -> Outcome."""
    L, P, M, J, T = _helpers()
    from harness import lianrun
    out = Outcome()
    kind = case["kind"]
    if kind == "py":
        files = case["files"]
        orcs = {}
        for rel, src in files.items():
            try:
                orcs[rel] = P.PyOracle(src, rel)
            except (SyntaxError, RuntimeError) as e:
                out.errors.append("generated Python is not analysable by ast/symtable: %r\n%s" % (e, src))
                return out
            if orcs[rel].unsupported:
                out.errors.append("oracle does not model %s" % (orcs[rel].unsupported[:3],))
                return out
        b, res = L.analyze(files, "python", export=export)
        try:
            if b.error:
                out.discrepancies.append((("python", "crash", _exc_name(res), "-"), "lian failed: %s" % b.error[:300]))
                return out
            for rel in files:
                ds, st = P.compare_unit(rel, orcs[rel], b)
                out.discrepancies.extend(ds)
                _add(out.stats, st)
            if export:
                _selfcheck_export(L, b, res, out)
        finally:
            lianrun.cleanup(res)
        if want_labels:
            for rel in files:
                out.nontrivial = out.nontrivial or P.nontrivial(orcs[rel])
                out.labels |= P.labels(orcs[rel])
    elif kind == "pymulti":
        files = case["files"]
        try:
            pr = M.ProjectResolver(files)
        except (SyntaxError, RuntimeError) as e:
            out.errors.append("generated project is not analysable: %r" % (e,))
            return out
        b, res = L.analyze(files, "python", export=export)
        try:
            if b.error:
                out.discrepancies.append((("python", "crash", _exc_name(res), "-"), "lian failed: %s" % b.error[:300]))
                return out
            for rel in files:
                ds, st = P.compare_unit(rel, pr.oracles[rel], b, imports=pr.expectation(rel))
                out.discrepancies.extend(ds)
                _add(out.stats, st)
            if export:
                _selfcheck_export(L, b, res, out)
        finally:
            lianrun.cleanup(res)
        if want_labels:
            lab, nt = M.labels(pr)
            out.labels |= lab
            out.nontrivial = nt
    elif kind == "js":
        tree = case["tree"]
        prog = J.Program(tree)
        if "source" in case and case["source"] != prog.source:
            out.errors.append("stored JavaScript source differs from the rendering of the stored tree")
            return out
        b, res = L.analyze({"a.js": prog.source}, "javascript", export=export)
        try:
            if b.error:
                out.discrepancies.append((("javascript", "crash", _exc_name(res), "-"), "lian failed: %s" % b.error[:300]))
                return out
            ds, st = J.compare("a.js", prog, b)
            out.discrepancies.extend(ds)
            _add(out.stats, st)
            if export:
                _selfcheck_export(L, b, res, out)
        finally:
            lianrun.cleanup(res)
        if want_labels:
            out.nontrivial = J.nontrivial(prog)
            out.labels |= J.labels(prog)
        J.strip(tree)
    elif kind == "meta":
        T.check_meta(case, out)
    elif kind == "calibration":
        _check_calibration(case, out)
    else:
        out.errors.append("unknown case kind %r" % kind)
    return out


def _exc_name(res):
    e = getattr(res, "exc", None)
    return type(e).__name__ if e is not None else "none"


def _add(acc, st):
    for k, v in st.items():
        acc[k] = acc.get(k, 0) + v


def _selfcheck_export(L, b, res, out):
    """memory view == exported semantic_p1/s2space_p1 bundles (same (stmt, name, symbol_id) triples)"""
    try:
        ff = L.bindings_from_files(res)
    except Exception as e:
        out.errors.append("cannot read back s2space_p1 bundles: %r" % (e,))
        return
    mem = L.triples(b)
    rows = set(b.rows)
    ff = [t for t in ff if t[0] in rows]
    if ff != mem:
        out.errors.append("loader memory and exported s2space_p1 differ: only-file %s only-memory %s" % (
            [t for t in ff if t not in mem][:3], [t for t in mem if t not in ff][:3]))


def _check_calibration(case, out):
    """hand-written, shadowing-free program + the exact representation of chosen bindings.

    Harness errors (the observation machinery does not work as this check assumes): lian fails, an occurrence
    has no Symbol row, the declaration row an expectation names does not exist in the GIR with that operation
    and line, memory and exported bundles differ.  A Symbol that is bound to something else than the expected
    row is the property itself on a trivial program -> an ordinary discrepancy (signature 'calibration')."""
    L, P, M, J, T = _helpers()
    from harness import lianrun
    b, res = L.analyze(case["files"], case["lang"], export=True)
    try:
        if b.error:
            out.errors.append("calibration %s: lian failed: %s" % (case.get("name"), b.error[:300]))
            return
        for exp in case["expect"]:
            unit, line, name = exp["unit"], exp["line"], exp["name"]
            want = exp["binding"]
            if want["kind"] == "decl":
                rows = [r for r in b.rows.values() if r["unit"] == want["unit"] and r["op"] == want["op"]
                        and r["line"] == want["decl_line"]]
                if not rows:
                    out.errors.append("calibration %s: the GIR of %s has no %s row at line %d" % (
                        case.get("name"), want["unit"], want["op"], want["decl_line"]))
                    continue
                if not any(b.owner(r["stmt_id"])[:2] == (want["owner"], want["owner_line"]) for r in rows):
                    out.errors.append("calibration %s: the %s row at %s:%d is not owned by %s@%d (GIR parent chain)" % (
                        case.get("name"), want["op"], want["unit"], want["decl_line"], want["owner"], want["owner_line"]))
                    continue
            elif want["kind"] == "module":
                if want["path"] not in b.modules.values():
                    out.errors.append("calibration %s: module table has no entry for %s" % (case.get("name"), want["path"]))
                    continue
            syms = b.at_target(unit, exp["target"], name) if exp.get("target") else b.at_line(unit, line, name)
            if not syms:
                out.errors.append("calibration %s: no Symbol row for %s:%d %s" % (case.get("name"), unit, line, name))
                continue
            for s in syms:
                d = b.describe(s["symbol_id"])
                got = {"kind": d["kind"]}
                if d["kind"] == "decl":
                    got.update({"unit": d["unit"], "op": d["op"], "decl_line": d["line"], "owner": d["owner"][0],
                                "owner_line": d["owner"][1]})
                elif d["kind"] == "module":
                    got.update({"path": d["path"]})
                if any(got.get(k) != v for k, v in want.items()):
                    out.discrepancies.append(((case["lang"], "calibration", exp.get("label", want["kind"]),
                                               "%s:%d:%s" % (unit, line, name)),
                                              "calibration %s: %s:%d `%s` is bound to %s, expected %s" % (
                                                  case.get("name"), unit, line, name, got, want)))
        _selfcheck_export(L, b, res, out)
    finally:
        lianrun.cleanup(res)


# ---------------------------------------------------------------------------------------------
# known-finding driven step-overs

STEP_USED_BEFORE_IMPORT = (ID, "python", "function", "import-stmt", "imported:used-before-import")


def finding_open(sig):
    return common.classify(ID, tuple(sig))[0] == "known"


# ---------------------------------------------------------------------------------------------
# shards

def _settings(seed, n):
    import hypothesis
    from hypothesis import settings, HealthCheck, Phase
    return hypothesis.seed(seed), settings(max_examples=n, deadline=None, database=None, derandomize=False,
                                           report_multiple_bugs=False, suppress_health_check=list(HealthCheck),
                                           phases=[Phase.generate])


def _record(col, case, out, sample_every=0):
    col.case()
    for k, v in out.stats.items():
        col.extra[case["kind"] + ":" + k] += v
    for e in out.errors:
        col.error(e + "\ncase=" + json.dumps(case)[:1500])
    if out.nontrivial:
        col.nontriv(case.get("files") or case.get("source") or case)
        col.label(case["kind"] + ":nontrivial")
    col.label(*sorted(out.labels))
    col.label(case["kind"] + ":cases")
    for sig, what in out.sigs():
        col.discrepancy(sig, what, case)
    if not out.discrepancies:
        col.label(case["kind"] + ":agrees-everywhere")


def py_shard(arg):
    seed, n, shard = arg
    L, P, M, J, T = _helpers()
    from hypothesis import given
    col = Collector()
    sd, st = _settings(seed, n)
    count = [0]

    @sd
    @st
    @given(P.tree_strategy(extra_forms=True, imports=True))
    def prop(tree):
        dropped = P.fixup(tree)
        src, occs, sl = P.render(tree)
        col.extra["py:statements-dropped-by-fixup"] += dropped
        try:
            compile(src, "a.py", "exec")
        except SyntaxError as e:
            col.error("generator produced invalid Python (%s):\n%s" % (e, src))
            return
        # generator's intended binding vs symtable
        inten, info = P.intended(tree, occs, sl)
        orc = P.PyOracle(src, "a.py")
        got = {}
        for r in orc.resolved():
            got.setdefault("%d:%s" % (r["line"], r["name"]), set()).add((r["owner"].kind, r["owner"].line))
        want = {k: {(a, b) for a, b, _ in v} for k, v in inten.items()}
        if got != want:
            bad = sorted(k for k in set(got) | set(want) if got.get(k) != want.get(k))[:3]
            col.error("symtable and the generator's resolver disagree at %s: symtable %s generator %s\n%s" % (
                bad, [sorted(got.get(k, ())) for k in bad], [sorted(want.get(k, ())) for k in bad], src))
            return
        case = {"kind": "py", "files": {"a.py": src}}
        count[0] += 1
        out = check_case(case, export=(count[0] % 50 == 1))
        _record(col, case, out)
        if count[0] % 97 == 3:
            col.sample({"kind": "py", "source": src, "discrepancies": [w for _, w in out.discrepancies][:3]})

    prop()
    return col


def pymulti_shard(arg):
    seed, n, shard = arg
    L, P, M, J, T = _helpers()
    from hypothesis import given
    col = Collector()
    sd, st = _settings(seed, n)
    count = [0]
    hoist = finding_open(STEP_USED_BEFORE_IMPORT)

    @sd
    @st
    @given(M.project_strategy())
    def prop(proj):
        col.extra["pymulti:statements-dropped-by-fixup"] += M.fix_project(proj)
        if hoist:
            k = M.hoist_function_imports(proj)
            if k:
                col.stepovers["/".join(STEP_USED_BEFORE_IMPORT)] += 1
        files = M.render_project(proj)
        for rel, src in files.items():
            try:
                compile(src, rel, "exec")
            except SyntaxError as e:
                col.error("generator produced invalid Python (%s):\n%s" % (e, src))
                return
        count[0] += 1
        values = {int(k): tuple(v) for k, v in proj["values"].items()}
        bad, ncmp, failed = M.crosscheck_runtime(files, values)
        col.extra["pymulti:names-checked-against-cpython"] += ncmp
        col.extra["pymulti:modules-that-fail-to-import(expected for missing names)"] += failed
        if bad:
            # ground truth uncertain: the case is not judged; main() turns a discard rate above 1 % into a
            # harness error
            col.discards["pymulti: project resolver disagrees with CPython (case not judged)"] += 1
            if len(col.notes) < 3:
                col.notes.append("resolver/CPython mismatch: %s %s" % (bad[:2], json.dumps(files)[:1200]))
            return
        case = {"kind": "pymulti", "files": files}
        out = check_case(case, export=(count[0] % 50 == 1))
        _record(col, case, out)
        if count[0] % 97 == 3:
            col.sample({"kind": "pymulti", "files": files, "discrepancies": [w for _, w in out.discrepancies][:3]})

    prop()
    return col


def js_shard(arg):
    seed, n, shard, with_node = arg
    L, P, M, J, T = _helpers()
    from hypothesis import given
    col = Collector()
    sd, st = _settings(seed, n)
    count = [0]
    node = J.find_node() if with_node else None
    if with_node and node is None:
        col.notes.append("node not found: the JavaScript resolver was not cross-checked against an engine")

    @sd
    @st
    @given(J.tree_strategy())
    def prop(tree):
        col.extra["js:statements-dropped-by-fixup"] += J.fixup(tree)
        prog = J.Program(tree)
        count[0] += 1
        if node is not None and count[0] % with_node == 0:
            r = J.node_crosscheck(tree, node)
            if r is not None:
                bad, ncmp = r
                col.extra["js:uses-checked-against-node"] += ncmp
                if bad:
                    col.error("JavaScript resolver disagrees with node: %s\n%s" % (bad[:3], prog.source))
                    return
        J.strip(tree)
        case = {"kind": "js", "tree": tree, "source": prog.source}
        out = check_case(case, export=(count[0] % 50 == 1))
        _record(col, case, out)
        if count[0] % 97 == 3:
            col.sample({"kind": "js", "source": prog.source, "discrepancies": [w for _, w in out.discrepancies][:3]})

    prop()
    return col


def meta_shard(arg):
    seed, n, shard, lang = arg
    L, P, M, J, T = _helpers()
    from hypothesis import given
    col = Collector()
    sd, st = _settings(seed, n)
    count = [0]

    @sd
    @st
    @given(T.meta_strategy(lang))
    def prop(spec):
        case = T.build_case(spec, lang)
        if case is None:
            col.discards["meta: nothing renamable"] += 1
            return
        count[0] += 1
        out = check_case(case)
        for so in getattr(out, "stepovers", []):
            col.stepovers[so] += 1
        if getattr(out, "skipped", False):
            col.discards["meta: original program touches an open known finding (stepped over)"] += 1
            col.case()
            return
        _record(col, case, out)
        if count[0] % 61 == 3:
            col.sample({"kind": "meta", "lang": lang, "files": case["files"], "renamed": case["renamed"],
                        "rename": case["rename"]})

    prop()
    return col


# ---------------------------------------------------------------------------------------------
# replay / main

def replay(path):
    from harness import lianrun
    rec = common.load_replay(path)
    try:
        out = check_case(rec["case"], export=True)
    finally:
        lianrun.cleanup_scratch()       # check.py leaves through os._exit: atexit handlers do not run
    for e in out.errors:
        print("HARNESS-ERROR: property=%s %s" % (ID, e))
    if out.errors:
        return 2
    new = []
    for sig, what in out.sigs():
        kind, _ = common.classify(ID, sig)
        if kind == "known" and not os.environ.get("VERIF_CONFIRM"):
            print("KNOWN-FINDING: property=%s %s" % (ID, what))
        else:
            new.append((sig, what))
    if new:
        print("VIOLATION property=%s replay=%s" % (ID, path))
        for sig, what in new[:5]:
            print("  signature=%s %s" % (list(sig), what))
        return 1
    print("%s replay %s: %s" % (ID, path, "holds" if not out.discrepancies else "only known findings"))
    return 0


def main(tier, seed, t0):
    from harness import lianrun
    try:
        return _main(tier, seed, t0)
    finally:
        lianrun.cleanup_scratch()       # check.py leaves through os._exit: atexit handlers do not run


def _main(tier, seed, t0):
    col = Collector()
    # 1. calibration + committed regression inputs
    for path in common.replay_files(ID):
        rec = common.load_replay(path)
        out = check_case(rec["case"], export=True)
        col.case()
        col.label("replayed")
        for e in out.errors:
            col.error("%s: %s" % (os.path.basename(path), e))
        for sig, what in out.sigs():
            col.discrepancy(sig, what, rec["case"])
        expect = rec.get("expect_signature")
        if expect and not any(common.sig_matches(expect, s) for s, _ in out.sigs()):
            kind, entry = common.classify(ID, tuple(expect))
            if kind == "known":
                col.notes.append("%s no longer shows the open known finding %s (repaired? then its entry can be "
                                 "switched to 'fixed')" % (os.path.basename(path), expect))
    if col.errors:
        return common.finish(ID, tier, seed, col, t0, RULE, ASSUMPTIONS)
    n = common.NCPU
    if tier == "quick":
        plan = {"py": 640, "pymulti": 400, "js": 360, "meta-python": 100, "meta-javascript": 60}
        node_every = 0
    else:
        plan = {"py": 36000, "pymulti": 16000, "js": 20000, "meta-python": 3000, "meta-javascript": 1500}
        node_every = 4
    args = []
    per = lambda k: max(1, plan[k] // n + 1)
    shard = 0
    jobs = []
    for i in range(n):
        jobs.append(("py", (common.shard_seed(seed, 100 + i), per("py"), i)))
        jobs.append(("pymulti", (common.shard_seed(seed, 200 + i), per("pymulti"), i)))
        jobs.append(("js", (common.shard_seed(seed, 300 + i), per("js"), i, node_every)))
        jobs.append(("meta", (common.shard_seed(seed, 400 + i), per("meta-python"), i, "python")))
        jobs.append(("meta", (common.shard_seed(seed, 500 + i), per("meta-javascript"), i, "javascript")))
    col.merge(common.run_shards(dispatch_shard, jobs))
    unsure = col.discards.get("pymulti: project resolver disagrees with CPython (case not judged)", 0)
    if unsure * 100 > max(1, col.labels.get("pymulti:cases", 0)):
        col.error("the project resolver disagrees with CPython on %d of %d projects (> 1 %%): %s" % (
            unsure, col.labels.get("pymulti:cases", 0), col.notes[:1]))
    return common.finish(ID, tier, seed, col, t0, RULE, ASSUMPTIONS)


def dispatch_shard(job):
    kind, arg = job
    from harness import lianrun
    try:
        return {"py": py_shard, "pymulti": pymulti_shard, "js": js_shard, "meta": meta_shard}[kind](arg)
    finally:
        lianrun.cleanup_scratch()
