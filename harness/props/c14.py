"""C14 — analysis output is a deterministic function of the input.

Every project is analysed several times, each time in a FRESH interpreter (lianrun.run_cli):
different PYTHONHASHSEED values, a second time into the same forced workspace, again after a different
project was analysed into that workspace, into a workspace at another path on the same filesystem and
into a workspace on another filesystem.  All files under frontend/ semantic_p1/ semantic_p2/
semantic_p3/ taint/ must be byte-identical between runs sharing the workspace path, and equal after
loading + replacing the workspace prefix for the relocated runs.
"""
import io
import json
import os
import re
import shutil
import subprocess
import tempfile
import time

from harness import common, lianrun
from harness.common import Collector

ID = "C14"

OBS_DIRS = ["frontend", "semantic_p1", "semantic_p2", "semantic_p3", "taint"]

RULE = ("multi-file projects (Hypothesis grammar harness/c14_gen.py: 2-4 python units, ~30-name identifier pools, "
        "classes with inheritance, imports between units, closures, dict/list literals, several call sites, >= 2 "
        "unresolved external names per statement, parameter sources and sink() calls; plus groups of 2-3 files and "
        "whole directory projects of the repository's own test inputs) each analysed by `lian run` (not quiet, "
        "generated settings, optionally --enable-p2) in 5-6 separate processes: PYTHONHASHSEED 0 and 1 into the same "
        "forced workspace, a Hypothesis-drawn seed after a different project was analysed into that workspace, a "
        "drawn seed into a workspace at another path of the same filesystem, a drawn seed into a workspace on another "
        "filesystem (tmpfs) when one exists. Oracle: every file under frontend/ semantic_p1/ semantic_p2/ "
        "semantic_p3/ taint/ byte-identical for the same workspace path; equal after loading (feather/json) and "
        "replacing the workspace prefix for relocated runs; same exit code and same set of files. Non-trivial = the "
        "reference run wrote >= 1 call path (semantic_p3/call_paths_p3) and >= 20 rows of s2space_p3; distinct by "
        "project content.")

ASSUMPTIONS = [
    "PYTHONHASHSEED=random of the design is replaced by seeds drawn by Hypothesis (0..2^32-1) so that every run can "
    "be replayed; an integer seed and 'random' select the same SipHash code path with a different key",
    "the shipped 1 MB *_from_code.yaml rule files are replaced by an empty list (configuration, see lianrun.run_cli)",
    "the 'other filesystem' relocation uses /dev/shm when it is a writable directory on a device different from "
    "the scratch directory; otherwise that run is skipped and counted under discarded",
    "only workspace paths are normalised for relocated runs (every string cell, prefix of the relocated workspace "
    "replaced by the reference one); the input directory is the same for all runs of a project",
    "state_flow_graph_p3.bundle* is empty on every run (known C15 finding: the bundle cannot be serialised), so the "
    "state flow graph is observed only through the taint report",
]

# ---------------------------------------------------------------------------------------------
# settings written for every run (part of the options that stay the same between the runs of a project)

def settings_for(lang):
    from harness import c14_gen
    return {
        "entry": [{"method_list": ["%unit_init"]}, {"lang": lang, "method_list": list(c14_gen.ENTRY_FUNCS)}],
        "source": [{"lang": lang, "rules": [{"operation": "parameter_decl", "name": "p"}]}],
        "sink": [{"lang": lang, "rules": [{"operation": "call_stmt", "name": "sink", "target": ["\\%arg0"]}]}],
    }


PRED_PROJECT = {
    "zz_first.py": "import os\nclass Early:\n    def __init__(self, p):\n        self.f = p\n    def go(self, p):\n        sink(p)\n        return unknown_a + unknown_b\n"
                   "def start(p):\n    e = Early(p)\n    return e.go(p)\nstart(unknown_c)\n",
    "aa_second.py": "from zz_first import start, Early\ndef again(p, q):\n    d = {\"x\": p, \"y\": q}\n    sink(d[\"x\"])\n    return start(q)\nagain(1, 2)\nagain(unknown_d, 3)\n",
    "mid/third.py": "def lonely(p):\n    l = [p, 1]\n    for i in l:\n        sink(i)\n    return l\nlonely(0)\n",
}

DEFAULT_SCHEDULE = [
    {"id": "r0", "proj": "target", "ws": "A", "hs": 0},
    {"id": "r1", "proj": "target", "ws": "A", "hs": 1},
    {"id": "r2", "proj": "pred", "ws": "A", "hs": 0},
    {"id": "r3", "proj": "target", "ws": "A", "hs": "derived"},
    {"id": "r4", "proj": "target", "ws": "B", "hs": "rand1"},
    {"id": "r5", "proj": "target", "ws": "S", "hs": "rand2"},
]
KIND_OF_WS = {"A": "same-path", "B": "relocated", "S": "other-fs"}
RUN_TIMEOUT = 300


def other_fs_root(ref_dir):
    """A writable directory on another filesystem than ref_dir (None when there is none)."""
    cand = os.environ.get("VERIF_C14_OTHER_FS", "/dev/shm")
    try:
        if os.path.isdir(cand) and os.access(cand, os.W_OK) and os.stat(cand).st_dev != os.stat(ref_dir).st_dev:
            return cand
    except OSError:
        pass
    return None


def tree_fingerprint():
    """Content hash of the lian sources the subprocesses import.  A determinism check needs a fixed tree: when
    the tree is edited while the runs of one case are under way (shared development checkout), the case is
    discarded instead of blaming lian for the difference between the old and the new code."""
    import hashlib
    h = hashlib.blake2b(digest_size=12)
    root = os.path.join(common.REPO_SRC, "lian")
    for dp, dns, fns in os.walk(root):
        dns[:] = sorted(d for d in dns if d != "__pycache__")
        for n in sorted(fns):
            if n.endswith((".py", ".yaml", ".so")):
                p = os.path.join(dp, n)
                h.update(os.path.relpath(p, root).encode())
                try:
                    with open(p, "rb") as f:
                        h.update(f.read())
                except OSError:
                    h.update(b"<unreadable>")
    return h.hexdigest()


# ---------------------------------------------------------------------------------------------
# observation

def snapshot(ws_root):
    """{relative path: bytes} of every file under the observed directories of <ws>/lian_workspace."""
    snap = {}
    for d in OBS_DIRS:
        top = os.path.join(ws_root, d)
        for dp, dns, fns in os.walk(top):
            dns.sort()
            for n in sorted(fns):
                p = os.path.join(dp, n)
                with open(p, "rb") as f:
                    snap[os.path.relpath(p, ws_root)] = f.read()
    return snap


def _canon(v, repl):
    import numpy as np
    if isinstance(v, str):
        return repl(v)
    if v is None:
        return "<none>"
    if isinstance(v, np.ndarray):
        return ["<array>"] + [_canon(x, repl) for x in v.tolist()]
    if isinstance(v, (list, tuple)):
        return [_canon(x, repl) for x in v]
    if isinstance(v, dict):
        return {str(k): _canon(x, repl) for k, x in v.items()}
    if isinstance(v, bytes):
        return ["<bytes>", v.hex()]
    if hasattr(v, "item") and not isinstance(v, (int, float, bool)):
        try:
            v = v.item()
        except Exception:
            return repr(v)
    if isinstance(v, float) and v != v:
        return "<nan>"
    try:
        import pandas as pd
        if v is pd.NA or v is pd.NaT:
            return "<na>"
    except Exception:
        pass
    return v


def load_file(rel, data, repl):
    """-> ("table", columns, dtypes, {col: [cells]}) | ("json", obj) | ("raw", bytes)."""
    if len(data) == 0:
        return ("raw", b"")
    if rel.endswith(".json"):
        try:
            return ("json", _canon(json.loads(data.decode("utf-8")), repl))
        except Exception:
            return ("raw", data)
    try:
        import pandas as pd
        df = pd.read_feather(io.BytesIO(data))
    except Exception:
        return ("raw", data)
    cols = [str(c) for c in df.columns]
    dtypes = [str(t) for t in df.dtypes]
    cells = {}
    for c in df.columns:
        cells[str(c)] = [_canon(x, repl) for x in df[c].tolist()]
    cells["<index>"] = [_canon(x, repl) for x in df.index.tolist()]
    return ("table", cols, dtypes, cells)


def first_difference(rel, a, b, repl_b):
    """First differing 'column' of two versions of one file (None = equal after loading/normalisation)."""
    ident = lambda s: s
    la = load_file(rel, a, ident)
    lb = load_file(rel, b, repl_b)
    if la[0] != lb[0]:
        return "<format>", "%s vs %s" % (la[0], lb[0])
    if la[0] == "raw":
        return (None, "") if la[1] == lb[1] else ("bytes", "%d vs %d bytes" % (len(la[1]), len(lb[1])))
    if la[0] == "json":
        return _json_diff(la[1], lb[1])
    _, ca, ta, da = la
    _, cb, tb, db = lb
    if ca != cb:
        if sorted(ca) == sorted(cb):
            return "<column-order>", "%s vs %s" % (ca, cb)
        return "<columns>", "%s vs %s" % (ca, cb)
    n = len(da["<index>"])
    if n == len(db["<index>"]) and n > 1 and da["<index>"] == db["<index>"]:
        # same rows in another order?  (a root-cause class of its own: an unordered collection was flattened)
        rows_a = [json.dumps([da[c][i] for c in ca], sort_keys=True, default=str) for i in range(n)]
        rows_b = [json.dumps([db[c][i] for c in ca], sort_keys=True, default=str) for i in range(n)]
        if rows_a != rows_b and sorted(rows_a) == sorted(rows_b):
            i = next(i for i in range(n) if rows_a[i] != rows_b[i])
            return "<row-order>", "same %d rows, different order from row %d: %s vs %s" % (
                n, i, _short(rows_a[i], 120), _short(rows_b[i], 120))
    for c in ca + ["<index>"]:
        if da[c] != db[c]:
            xa, xb = da[c], db[c]
            if len(xa) != len(xb):
                return c, "%d vs %d rows" % (len(xa), len(xb))
            i = next(i for i in range(len(xa)) if xa[i] != xb[i])
            return c, "row %d: %s vs %s" % (i, _short(xa[i]), _short(xb[i]))
    if ta != tb:
        i = next(i for i in range(len(ta)) if ta[i] != tb[i])
        return ca[i] + ":dtype", "%s vs %s" % (ta[i], tb[i])
    return None, ""


def _short(x, n=90):
    s = json.dumps(x, default=str) if not isinstance(x, str) else x
    return s if len(s) <= n else s[:n] + "..."


def _json_diff(a, b):
    if a == b:
        return None, ""
    if isinstance(a, list) and isinstance(b, list):
        if len(a) != len(b):
            return "<length>", "%d vs %d entries" % (len(a), len(b))
        for i, (x, y) in enumerate(zip(a, b)):
            if x != y:
                if isinstance(x, dict) and isinstance(y, dict):
                    for k in list(x) + [k for k in y if k not in x]:
                        if x.get(k) != y.get(k):
                            return str(k), "entry %d: %s vs %s" % (i, _short(x.get(k)), _short(y.get(k)))
                return "<entry>", "entry %d: %s vs %s" % (i, _short(x), _short(y))
    return "<value>", "%s vs %s" % (_short(a), _short(b))


def stem_of(rel):
    """frontend/gir.bundle3 -> frontend/gir.bundle ; the bundle number is not part of the root cause class."""
    d, n = os.path.split(rel)
    if ".bundle" in n:
        n = n.split(".bundle")[0] + ".bundle"
    return "%s/%s" % (d, n)


def unit_order_only(a, b, repl_b):
    """True when two module_symbols tables describe the same module tree (names, parents by name, paths, hashes)
    and differ only in which module_id each directory/unit received."""
    ident = lambda s: s
    la, lb = load_file("m", a, ident), load_file("m", b, repl_b)
    if la[0] != "table" or lb[0] != "table" or la[1] != lb[1]:
        return False

    def norm(t):
        cells = t[3]
        n = len(cells["module_id"])
        id2path = {cells["module_id"][i]: cells["unit_path"][i] for i in range(n)}
        rows = []
        for i in range(n):
            r = {}
            for c in t[1]:
                v = cells[c][i]
                if c in ("module_id", "unit_id"):
                    continue
                if c == "parent_module_id":
                    v = id2path.get(v, v)
                r[c] = v
            rows.append(json.dumps(r, sort_keys=True, default=str))
        return sorted(rows), [cells["module_id"][i] for i in range(n)], [cells["unit_path"][i] for i in range(n)]
    ra, ia, pa = norm(la)
    rb, ib, pb = norm(lb)
    return ra == rb and sorted(ia) == sorted(ib) and pa != pb


def compare_snapshots(kind, ref, other, ws_ref, ws_other):
    """-> list of (sig, what).  Only the first differing file in pipeline order is reported (later
    differences are consequences more often than not); `what` carries the number of differing files."""
    if kind == "same-path":
        repl = lambda s: s
    else:
        repl = lambda s: s.replace(ws_other, ws_ref)
    fa, fb = sorted(ref), sorted(other)
    if fa != fb:
        only_a = [f for f in fa if f not in other]
        only_b = [f for f in fb if f not in ref]
        f = (only_a + only_b)[0]
        return [((ID, kind, "<file-set>", f.split("/")[0]), "files only in reference run %s, only in other run %s" % (only_a[:4], only_b[:4]), 0)]
    diffs = []
    # pipeline order; module_symbols is written first of all (preparation) and decides every unit id
    order = sorted(fa, key=lambda f: (OBS_DIRS.index(f.split("/")[0]), f != "frontend/module_symbols", f))
    for f in order:
        if ref[f] == other[f]:
            continue
        col, detail = first_difference(f, ref[f], other[f], repl)
        if col is None:
            if kind == "same-path":
                col, detail = "bytes", "files load equal but bytes differ"
            else:
                continue
        diffs.append((f, col, detail))
    if not diffs:
        return []
    f, col, detail = diffs[0]
    if kind != "same-path" and f == "frontend/module_symbols" and unit_order_only(ref[f], other[f], repl):
        col = "unit-id-order"
    # files whose difference is the same observation as the reported one (not hidden behind it)
    fam = lambda rel: re.sub(r"_p[123](\.bundle)?$", "", stem_of(rel))      # ..._p2.bundle / ..._p3.bundle: one family
    same = [d for d in diffs if fam(d[0]) == fam(f) and d[1] == col] if col == "<row-order>" else [diffs[0]]
    what = "%s run: %s column %s differs (%s); %d differing file(s): %s" % (
        kind, f, col, detail, len(diffs), [d[0] for d in diffs[:6]])
    return [((ID, kind, stem_of(f), col), what, len(diffs) - len(same))]


def stats_of(snap):
    """Numbers read from the reference run for the non-triviality rule and the class histogram."""
    import pandas as pd
    st = {"call_paths": 0, "state_rows": 0, "flows": 0, "units": 0, "ext_ids": 0, "files": len(snap)}
    for rel, data in snap.items():
        if not data:
            continue
        try:
            if rel == "semantic_p3/call_paths_p3":
                st["call_paths"] = len(pd.read_feather(io.BytesIO(data)))
            elif rel.startswith("semantic_p3/s2space_p3.bundle"):
                st["state_rows"] += len(pd.read_feather(io.BytesIO(data)))
            elif rel == "taint/taint_data_flow.json":
                st["flows"] = len(json.loads(data.decode("utf-8")))
            elif rel == "frontend/module_symbols":
                df = pd.read_feather(io.BytesIO(data))
                st["units"] = int((df["symbol_type"] == 1).sum())
            elif rel == "frontend/unique_symbol_ids":
                df = pd.read_feather(io.BytesIO(data))
                # negative ids handed out (external symbols, `this`): the counter starts at BUILTIN_SYMBOL_START_ID
                try:
                    from lian.config import config as _cfg
                    start = -int(_cfg.BUILTIN_SYMBOL_START_ID)
                except Exception:
                    start = 120
                st["ext_ids"] = int(-int(df["negative_symbol_id"].iloc[0])) - start
        except Exception:
            pass
    return st


# ---------------------------------------------------------------------------------------------
# running one case

def write_project(root, files):
    for rel, text in files.items():
        p = os.path.join(root, rel)
        os.makedirs(os.path.dirname(p), exist_ok=True)
        with open(p, "w", encoding="utf-8") as f:
            f.write(text)


def run_case(case, col=None, only=None):
    """Execute the schedule of one case.  Returns (discrepancies [(sig, what)], info dict).
    info: {"stats": ..., "skipped": [...], "error": str|None, "rcs": {...}}"""
    lang = case.get("lang", "python")
    base = os.path.realpath(tempfile.mkdtemp(prefix="lianverif-c14-"))
    sroot = other_fs_root(base)
    sbase = None
    info = {"stats": None, "skipped": [], "error": None, "rcs": {}, "stepover": []}
    out = []
    fp0 = tree_fingerprint()
    try:
        write_project(os.path.join(base, "in_t", "proj"), case["files"])
        write_project(os.path.join(base, "in_p", "pred"), case.get("pred_files") or PRED_PROJECT)
        s = case.get("settings") or settings_for(lang)
        sd = lianrun.write_settings(os.path.join(base, "settings"), entry=s.get("entry"), source=s.get("source"),
                                    sink=s.get("sink"), propagation=s.get("propagation"))
        wsdirs = {"A": os.path.join(base, "wsA"), "B": os.path.join(base, "elsewhere", "deeper", "wsB")}
        os.makedirs(os.path.dirname(wsdirs["B"]), exist_ok=True)
        if sroot:
            sbase = os.path.realpath(tempfile.mkdtemp(prefix="lianverif-c14-", dir=sroot))
            wsdirs["S"] = os.path.join(sbase, "wsS")
        seeds = case.get("seeds", {})
        ref = None
        ref_rc = None
        for step in case.get("schedule") or DEFAULT_SCHEDULE:
            if only is not None and step["id"] not in only:
                continue
            ws = wsdirs.get(step["ws"])
            if ws is None:
                info["skipped"].append(step["id"])
                continue
            hs = step["hs"]
            if isinstance(hs, str):
                hs = seeds.get(hs, 12345)
            inp = os.path.join(base, "in_t", "proj") if step["proj"] == "target" else os.path.join(base, "in_p", "pred")
            # the predecessor is another project with its own language (a python project by default)
            run_lang = lang if step["proj"] == "target" else case.get("pred_lang", "python")
            args = ["run", "-l", run_lang, "-f", "-w", ws, "--nomock", "--default-settings", sd]
            if case.get("enable_p2"):
                args.append("--enable-p2")
            args.append(inp)
            try:
                r = lianrun.run_cli(args, base, hashseed=hs, timeout=RUN_TIMEOUT)
            except subprocess.TimeoutExpired:
                info["error"] = "timeout in %s" % step["id"]
                return out, info
            info["rcs"][step["id"]] = r.returncode
            if step["proj"] != "target":
                continue
            snap = snapshot(os.path.join(ws, "lian_workspace"))
            kind = KIND_OF_WS[step["ws"]]
            if ref is None:
                if step["ws"] != "A":
                    info["error"] = "schedule must start with a target run into workspace A"
                    return out, info
                ref, ref_rc = snap, r.returncode
                info["stats"] = stats_of(snap)
                info["tail"] = r.stdout[-400:]
                continue
            if r.returncode != ref_rc:
                out.append(((ID, kind, "<process>", "exit-code"),
                            "%s run %s (hash seed %s) exit code %s, reference run %s; tail: %s" % (
                                kind, step["id"], hs, r.returncode, ref_rc, r.stdout[-300:].replace("\n", " | "))))
                continue
            ds = compare_snapshots(kind, ref, snap, wsdirs["A"], ws)
            for sig, what, hidden in ds:
                what = "run %s (hash seed %s) vs r0: %s" % (step["id"], hs, what)
                # only the first differing file is reported: when that one is an open known finding, the other
                # differing files of this run were not examined (counted as step-over in the evidence)
                if hidden and common.classify(ID, sig)[0] == "known":
                    info["stepover"].append(sig)
                out.append((sig, what))
        if tree_fingerprint() != fp0:
            info["error"] = "source-tree-changed in the middle of the case"
            return [], info
        return out, info
    finally:
        shutil.rmtree(base, ignore_errors=True)
        if sbase:
            shutil.rmtree(sbase, ignore_errors=True)


def run_case_stable(case, only=None, attempts=3):
    """run_case, repeated when the lian sources were edited while the case was running."""
    for _ in range(attempts):
        discs, info = run_case(case, only=only)
        if not (info.get("error") or "").startswith("source-tree-changed"):
            break
    return discs, info


def dedupe(discs):
    seen, out = set(), []
    for sig, what in discs:
        if sig not in seen:
            seen.add(sig)
            out.append((sig, what))
    return out


def record(col, case, discs, info, labels=()):
    col.case()
    st = info.get("stats") or {}
    if info.get("error"):
        col.discards[info["error"].split(" in ")[0]] += 1
        return
    for sk in info.get("skipped", []):
        col.discards["run-%s-skipped:no-second-filesystem" % sk] += 1
    col.extra["lian_runs"] += len(info.get("rcs", {}))
    rc0 = info.get("rcs", {}).get("r0")
    col.label(*labels)
    col.label("exit:%s" % rc0)
    col.label("units:%s" % min(st.get("units", 0), 5))
    if st.get("flows"):
        col.label("has_taint_flows")
    if st.get("ext_ids", 0) >= 4:
        col.label("negative_symbol_ids>=4")
    if case.get("enable_p2"):
        col.label("enable_p2")
    if st.get("call_paths", 0) >= 1 and st.get("state_rows", 0) >= 20:
        col.nontriv({"files": case["files"], "p2": bool(case.get("enable_p2")), "lang": case.get("lang")})
        col.label("nontrivial")
    for sig in info.get("stepover", []):
        col.stepovers["/".join(sig)] += 1
    for sig, what in dedupe(discs):
        col.discrepancy(sig, what, slim(case))
        col.label("discrepancy:%s:%s:%s" % (labels[0] if labels else "?", sig[1], sig[3]))
    col.sample({"files": sorted(case["files"]), "lang": case.get("lang"), "enable_p2": bool(case.get("enable_p2")),
                "stats": st, "first_file_head": next(iter(case["files"].values()))[:300]})


def slim(case):
    c = {k: v for k, v in case.items() if k not in ("salt",)}
    return c


# ---------------------------------------------------------------------------------------------
# shards

def _hyp_settings(n):
    import hypothesis
    from hypothesis import settings, HealthCheck
    return settings(max_examples=n, deadline=None, database=None, derandomize=False, report_multiple_bugs=False,
                    suppress_health_check=list(HealthCheck), phases=[hypothesis.Phase.generate])


def gen_shard(arg):
    """arg = (source, hypothesis seed, number of projects, deadline or None); source in {"gen", "corpus:<lang>"}."""
    source, hseed, n, deadline = arg
    import hypothesis
    from hypothesis import strategies as st
    from harness import c14_gen
    col = Collector()
    if source == "gen":
        proj = c14_gen.python_projects()
    elif source == "gen:javascript":
        proj = c14_gen.javascript_projects()
    else:
        proj = c14_gen.corpus_projects_strategy(source.split(":")[1])
    seed32 = st.integers(2, 2 ** 32 - 1)
    done = [0]

    @hypothesis.seed(hseed)
    @_hyp_settings(n + 4)
    @hypothesis.given(proj, seed32, seed32, seed32, st.integers(0, 2))
    def prop(p, s1, s2, s3, p2):
        if done[0] >= n:
            return
        if p["salt"] == 0:
            col.discards["hypothesis-simplest-example"] += 1
            return
        if deadline and time.time() > deadline:
            col.discards["deadline"] += 1
            done[0] = n
            return
        done[0] += 1
        case = {"lang": p["lang"], "files": p["files"], "enable_p2": p2 == 0,
                "seeds": {"derived": s1, "rand1": s2, "rand2": s3}}
        if p.get("origin"):
            case["origin"] = p["origin"]
        discs, info = run_case_stable(case)
        record(col, case, discs, info, labels=("source:%s" % source,))

    prop()
    return col


def replay_shard(path):
    col = Collector()
    rec = common.load_replay(path)
    discs, info = run_case_stable(rec["case"])
    record(col, rec["case"], discs, info, labels=("replayed",))
    if info.get("error"):
        col.error("replay %s: %s" % (path, info["error"]))
    return col


# ---------------------------------------------------------------------------------------------
# shrinking (thorough tier, new signatures only): drop files, then top-level definitions

def _chunks(text):
    out, cur = [], []
    for line in text.splitlines():
        if line and not line[0].isspace() and cur:
            out.append("\n".join(cur))
            cur = []
        cur.append(line)
    if cur:
        out.append("\n".join(cur))
    return out


def shrink_case(case, sig, max_tests=30):
    kind = sig[1]
    run_id = {"same-path": ["r0", "r1", "r3"], "relocated": ["r0", "r4"], "other-fs": ["r0", "r5"]}.get(kind, None)
    tests = [0]

    def fails(c):
        tests[0] += 1
        discs, info = run_case_stable(c, only=run_id)
        return any(tuple(s) == tuple(sig) for s, _ in discs)
    cur = dict(case)
    if not fails(cur):
        return case
    # schedule restricted to the runs that matter
    cur["schedule"] = [s for s in DEFAULT_SCHEDULE if s["id"] in run_id]
    names = sorted(cur["files"])
    keep = common.ddmin(names, lambda ns: fails(dict(cur, files={n: cur["files"][n] for n in ns})), max_tests=10)
    cur["files"] = {n: cur["files"][n] for n in keep}
    for n in sorted(cur["files"]):
        if tests[0] >= max_tests:
            break
        ch = _chunks(cur["files"][n])
        if len(ch) < 2:
            continue
        kept = common.ddmin(ch, lambda cs: fails(dict(cur, files=dict(cur["files"], **{n: "\n".join(cs) + "\n"}))),
                            max_tests=max(1, (max_tests - tests[0])))
        cur["files"] = dict(cur["files"], **{n: "\n".join(kept) + "\n"})
    return cur


# ---------------------------------------------------------------------------------------------
# entry points

def replay(path):
    rec = common.load_replay(path)
    discs, info = run_case_stable(rec["case"])
    if info.get("error"):
        print("HARNESS-ERROR: property=%s replay %s: %s" % (ID, path, info["error"]))
        return 2
    want = rec.get("signature")
    discs = dedupe(discs)
    if want:
        # a violation file names the signature it was written for: confirm that one first
        discs.sort(key=lambda d: 0 if list(d[0]) == list(want) else 1)
    new = [(s, w) for s, w in discs if common.classify(ID, tuple(s))[0] != "known" or os.environ.get("VERIF_CONFIRM")]
    if want and os.environ.get("VERIF_CONFIRM"):
        new = [(s, w) for s, w in discs if list(s) == list(want)]
    for s, w in discs:
        if (s, w) not in new:
            print("KNOWN-FINDING: property=%s %s" % (ID, w))
    if new:
        print("VIOLATION property=%s replay=%s" % (ID, path))
        for s, w in new:
            print("  signature=%s %s" % (list(s), w))
        return 1
    print("%s replay %s: holds (runs: %s, skipped: %s)" % (ID, path, info.get("rcs"), info.get("skipped")))
    return 0


def plan(tier, seed, t0):
    ncpu = common.NCPU
    if tier == "quick":
        n_gen, n_corpus, per = 14, 8, 1
        extra = [("gen:javascript", 2)]
        deadline = None
    else:
        per = 6
        n_gen, n_corpus = 64 * per, 24 * per
        extra = [("gen:javascript", 10 * per), ("corpus:javascript", 3 * per), ("corpus:java", 1 * per)]
        deadline = t0 + 17 * 60
    args = []
    shard = 0
    for source, total in [("gen", n_gen), ("corpus:python", n_corpus)] + extra:
        k = 0
        while k < total:
            m = min(per, total - k)
            args.append((source, common.shard_seed(seed, shard), m, deadline))
            shard += 1
            k += m
    return args


def main(tier, seed, t0):
    col = Collector()
    # 1. committed regression inputs (each is a full multi-process schedule: run them in the pool)
    rfiles = common.replay_files(ID)
    if rfiles:
        col.merge(common.run_shards(replay_shard, rfiles))
    # 2. generated and corpus projects
    args = plan(tier, seed, t0)
    # interleave sources so that the long generated projects are not all in the first wave
    col.merge(common.run_shards(gen_shard, args))
    if other_fs_root(tempfile.gettempdir()) is None:
        col.notes.append("no second filesystem available: the other-fs relocation (run r5) was skipped everywhere")
    # 3. shrink new violations at project level (thorough tier only; quick keeps the raw case)
    if tier == "thorough":
        for sig, b in list(col.buckets.items()):
            kind, _ = common.classify(ID, sig)
            if kind == "new":
                try:
                    b["examples"] = [shrink_case(b["examples"][0], sig)]
                except Exception as e:      # shrinking is best effort
                    col.notes.append("shrink of %s failed: %r" % (list(sig), e))
    return common.finish(ID, tier, seed, col, t0, RULE, ASSUMPTIONS)
