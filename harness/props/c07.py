"""C07 — every call that can happen at run time is in the computed call graph.

Generated 1-3 file Python programs with many kinds of call sites (harness/c07_gen.py); dynamic ground
truth from CPython's sys.setprofile; compared with the call sites stored in lian's call_paths_p3 and
with the frames P3 actually analysed (recorded by wrapping P3GlobalSemanticAnalysis.analyze_stmts
from the harness process).
"""
import glob
import hashlib
import importlib
import json
import os
import runpy
import shutil
import sys
import tempfile

from harness import common, c07_gen
from harness.common import Collector

ID = "C07"

RULE = ("Python projects of 1-3 files (flat or with the helpers in a package directory) built by harness/c07_gen.py from one "
        "48-bit seed drawn by Hypothesis: module-level functions, higher-order functions, factories, classes with own / "
        "inherited / super() / explicit-base __init__, single and diamond inheritance, nested functions, recursion groups; "
        "every call expression on its own line and labelled by the generator with (kind, via): kind = how the callee is "
        "reached (direct, constructor, method, inherited-method, overriding-method, self-method, callback-positional / "
        "-keyword / -bound-method / -constructor, returned-closure / -function / -param, stored-variable / -list / -dict / "
        "-field / -global / -class, method-on-param / -returned / -field / -list-element, recursion, mutual-recursion, "
        "recursive-method, plus extended kinds: super, default parameter, closure-captured, static/classmethod, lambda, "
        "class attribute, diamond lookups, *args/**kwargs, ...), via = local / from-import (flat, package, relative) / "
        "module-attribute (function, class, base class, value). The program is run by CPython under sys.setprofile; every "
        "Python-level call among the program's own functions is a dynamic edge (caller def, call line, callee def). lian "
        "runs with entry rule %unit_init (85 %) or with one configured entry function that the harness then calls (15 %); "
        "thorough tier: 20 % of the cases with --enable-p2. Oracle: every dynamic edge whose dynamic call chain from the "
        "entry is itself stored and analysed statically must occur as a CallSite in some stored path of call_paths_p3, and "
        "a P3 frame with exactly that call site must have been analysed (frames recorded by wrapping "
        "P3GlobalSemanticAnalysis.analyze_stmts). Non-trivial = >= 3 distinct dynamic edges on call lines of >= 2 kinds; "
        "distinct by hash of (files, mode).")

ASSUMPTIONS = [
    "ground truth is one concrete CPython execution per program (programs are deterministic and take no input), so "
    "only edges that really happen are demanded; dead call sites are not checked; precision (spurious static edges) is "
    "not this property",
    "ids are joined by (file, 1-based line, name): method_decl start_row+1 = line of the `def` (CPython reports the first "
    "decorator line, corrected from the source), call statement start_row+1 = f_back.f_lineno; %unit_init = module code; "
    "%mmN = <lambda>; pinned by replays/C07/calibration-*.json on every run (dynamic edges and GIR tables exactly, every "
    "stored call site mappable; mismatch = harness error) and by re-reading the stored tables of a fresh `lian run` process",
    "a constructor call K() is the dynamic edge to the __init__ that CPython runs (own or inherited); classes without "
    "any Python-level __init__ produce no dynamic edge and nothing is demanded",
    "an edge is only demanded when every edge of (one of) its dynamic call chain(s) down from the entry is stored and "
    "analysed statically, so that one root cause is not reported again under the kinds of the calls behind it (those "
    "are counted as secondary_missing_edges)",
    "module code of an imported file is a root (lian: %unit_init of that unit is an entry point under the %unit_init "
    "rule); the implicit execution of an imported module's code and of class bodies are not call edges",
    "a missing edge / unanalysed callee all of whose demanded occurrences lie behind P3's recursion bound (second cycle "
    "of the call path, CallPath.count_cycles() > 1) is attributed to that bound (kind cycle-cutoff), whatever the "
    "generator's label of the line",
    "under --enable-p2 all kinds that need a class or an instance form one root-cause family (object-call)",
    "kind labels come from the generator's own resolution of names, MRO (C3) and self-dispatch; they only name the "
    "root-cause class of a discrepancy, they never decide whether there is one",
]

LINE_BUDGET = 200000
CALL_BUDGET = 20000


# ---------------------------------------------------------------------------------------------
# dynamic ground truth

class BudgetExceeded(BaseException):
    pass


def dynamic_edges(files, main, entry=None):
    """Execute the project under sys.setprofile.
    -> {"edges": {edge: primary_parent_info}, "events": [(edge, parent_event_index)], "error": str|None}
    edge = (caller_def, (file, line), callee_def); def = (file, firstlineno, name); module code = (file, 0, '%unit_init')."""
    d = tempfile.mkdtemp(prefix="lianverif-c07run-")
    real = os.path.realpath(d)
    for rel, text in files.items():
        p = os.path.join(real, rel)
        os.makedirs(os.path.dirname(p), exist_ok=True)
        with open(p, "w", encoding="utf-8") as f:
            f.write(text)
    prefix = real + os.sep
    events = []            # (edge, parent event index or -1 for "called from module code")
    frame_event = {}       # id(frame) -> event index (live frames only)
    counters = {"calls": 0, "lines": 0}
    CO_OPTIMIZED = 0x1

    src_lines = {rel: text.splitlines() for rel, text in files.items()}
    def_cache = {}

    def defof(code):
        fn = code.co_filename
        if not fn.startswith(prefix):
            return None
        # not keyed by the code object itself: code equality ignores co_filename
        ckey = (fn, code.co_firstlineno, code.co_name, code.co_flags & CO_OPTIMIZED)
        d = def_cache.get(ckey)
        if d is not None:
            return d
        rel = fn[len(prefix):]
        if code.co_name == "<module>":
            d = (rel, 0, "%unit_init")
        elif not (code.co_flags & CO_OPTIMIZED):
            d = (rel, code.co_firstlineno, "<classbody>" + code.co_name)
        else:
            # CPython reports the line of the first decorator; lian's method_decl row carries the line of `def`
            line = code.co_firstlineno
            lines = src_lines.get(rel, [])
            while code.co_name != "<lambda>" and 0 < line <= len(lines) and lines[line - 1].lstrip().startswith("@"):
                line += 1
            d = (rel, line, code.co_name)
        def_cache[ckey] = d
        return d

    def prof(frame, event, arg):
        if event == "call":
            code = frame.f_code
            if not code.co_filename.startswith(prefix):
                return
            counters["calls"] += 1
            if counters["calls"] > CALL_BUDGET:
                raise BudgetExceeded("call budget")
            callee = defof(code)
            if callee is None or callee[2] == "%unit_init" or callee[2].startswith("<classbody>"):
                return
            back = frame.f_back
            if back is None:
                return
            caller = defof(back.f_code)
            if caller is None:
                return
            edge = (caller, (caller[0], back.f_lineno), callee)
            parent = frame_event.get(id(back), -1)
            if caller[2].startswith("<classbody>"):
                parent = -2
            events.append((edge, parent))
            frame_event[id(frame)] = len(events) - 1
        elif event == "return":
            frame_event.pop(id(frame), None)

    def tracer(frame, event, arg):
        if not frame.f_code.co_filename.startswith(prefix):
            return None
        return line_tracer

    def line_tracer(frame, event, arg):
        if event == "line":
            counters["lines"] += 1
            if counters["lines"] > LINE_BUDGET:
                raise BudgetExceeded("line budget")
        return line_tracer

    error = None
    old_path = list(sys.path)
    old_dwb = sys.dont_write_bytecode
    old_mods = set(sys.modules)
    old_rec = sys.getrecursionlimit()
    sys.dont_write_bytecode = True
    sys.path.insert(0, real)
    importlib.invalidate_caches()
    try:
        sys.setrecursionlimit(400)
        sys.settrace(tracer)
        sys.setprofile(prof)
        try:
            g = runpy.run_path(os.path.join(real, main), run_name="__main__")
            if entry:
                # configured entry point: only what happens under entry["name"](entry["arg"]) is demanded
                del events[:]
                frame_event.clear()
                g[entry["name"]](entry.get("arg", 1))
        finally:
            sys.setprofile(None)
            sys.settrace(None)
    except BaseException as e:       # noqa: the generated program may raise anything
        if isinstance(e, KeyboardInterrupt):
            raise
        error = "%s: %s" % (type(e).__name__, str(e)[:200])
    finally:
        sys.setrecursionlimit(old_rec)
        sys.path[:] = old_path
        sys.dont_write_bytecode = old_dwb
        for name in list(sys.modules):
            if name not in old_mods:
                m = sys.modules.get(name)
                f = getattr(m, "__file__", None) or ""
                if f.startswith(prefix) or name == "__main__":
                    if name != "__main__":
                        del sys.modules[name]
        for k in list(sys.path_importer_cache):
            if k == real or k.startswith(prefix):
                del sys.path_importer_cache[k]
        shutil.rmtree(d, ignore_errors=True)
    return {"events": events, "error": error, "calls": counters["calls"], "lines": counters["lines"]}


# ---------------------------------------------------------------------------------------------
# static side

def _nan(x):
    return x is None or x != x


class Static:
    def __init__(self):
        self.exc = None
        self.methods = {}      # method id -> def (file, line, name)
        self.classes = {}      # class id -> def
        self.stmt_line = {}    # stmt id -> (file, line)
        self.raw_sites = set()     # (caller_id, call_stmt_id, callee_id) over all stored paths
        self.sites = set()         # mapped (caller_def, (file, line), callee_def)
        self.paths = []
        self.frames = []           # (method_id, call_site tuple, call_path tuple of tuples)
        self.frame_sites = set()   # mapped call sites of analysed frames
        self.bounds_seen = {}          # mapped call site -> (max per-call-site counter, max cycles of the path) seen at its visits
        self.resolved_sites = set()    # mapped (caller, call stmt, callee) that P3 computed as callee ids of a call statement
        self.analysed_methods = set()   # defs with >= 1 analysed frame
        self.entry_points = set()
        self.stdout = ""

    def map_site(self, t):
        caller, stmt, callee = t
        c = self.methods.get(caller)
        s = self.stmt_line.get(stmt)
        k = self.methods.get(callee)
        if c is None or s is None or k is None:
            return None
        return (c, s, k)


def run_lian(files, enable_p2=False, entry=None):
    from harness import lianrun
    lianrun._import()
    from lian.core import global_semantics as gs
    st = Static()
    box = []
    cls = gs.P3GlobalSemanticAnalysis
    had_own = "analyze_stmts" in cls.__dict__
    orig = cls.analyze_stmts

    def rec(self, frame):
        try:
            box.append((int(frame.method_id),
                        (int(frame.caller_id), int(frame.call_stmt_id), int(frame.method_id)),
                        tuple((int(a.caller_id), int(a.call_stmt_id), int(a.callee_id)) for a in frame.call_path)))
        except Exception:
            pass
        return orig(self, frame)

    cls.analyze_stmts = rec
    from lian.core import global_stmt_states as gss
    gcls = gss.GlobalStmtStates
    orig_ctms = gcls.compute_target_method_states
    resolved = set()
    bounds_seen = {}
    from lian.common_structs import CallSite

    def rec_ctms(self, stmt_id, stmt, status, in_states, callee_method_ids, *a, **k):
        try:
            for c in callee_method_ids:
                t = (int(self.frame.method_id), int(stmt_id), int(c))
                resolved.add(t)
                # what the two documented bounds see at this visit (measured, not decided here): the per-call-site
                # counter and the number of cycles the path through this call site would have
                try:
                    cs = CallSite(self.frame.method_id, stmt_id, c)
                    cnt = int(self.frame.call_site_analyze_counter.get(cs, 0))
                    cyc = int(self.frame.call_path.add_callsite(cs).count_cycles())
                    old = bounds_seen.get(t, (0, 0))
                    bounds_seen[t] = (max(old[0], cnt), max(old[1], cyc))
                except Exception:
                    pass
        except Exception:
            pass
        return orig_ctms(self, stmt_id, stmt, status, in_states, callee_method_ids, *a, **k)

    gcls.compute_target_method_states = rec_ctms
    base = tempfile.mkdtemp(prefix="proj-", dir=lianrun.scratch_dir())
    res = None
    try:
        rule = [{"method_list": [entry["name"] if entry else "%unit_init"]}]
        sd = lianrun.write_settings(os.path.join(base, "settings"), entry=rule)
        res = lianrun.analyze(files, settings_dir=sd, lang="python", enable_p2=enable_p2, workdir=base,
                              capture_flows=False)
        st.stdout = res.stdout[-3000:]
        if res.exc is not None:
            st.exc = "%s: %s" % (type(res.exc).__name__, str(res.exc)[:300])
            return st
        loader = res.loader
        src_root = os.path.realpath(res.inputs) + os.sep
        for info in loader.get_all_unit_info():
            unit_id = int(info.module_id)
            op = os.path.realpath(str(info.original_path))
            rel = op[len(src_root):] if op.startswith(src_root) else os.path.basename(op)
            gir = loader.get_unit_gir(unit_id)
            if gir is None:
                continue
            for row in gir:
                sid = int(row.stmt_id)
                sr = row.start_row
                line = 0 if _nan(sr) else int(sr) + 1
                opn = row.operation
                if opn == "method_decl":
                    name = str(row.name)
                    if name.startswith("%mm"):
                        name = "<lambda>"
                    st.methods[sid] = (rel, 0 if name == "%unit_init" else line, name)
                elif opn == "class_decl":
                    st.classes[sid] = (rel, line, str(row.name))
                if opn not in ("block_start", "block_end") and sid not in st.stmt_line:
                    st.stmt_line[sid] = (rel, line)
        st.entry_points = {int(e) for e in loader.get_entry_points()}
        for p in loader.get_call_paths_p3():
            tp = tuple((int(cs.caller_id), int(cs.call_stmt_id), int(cs.callee_id)) for cs in p)
            st.paths.append(tp)
            st.raw_sites.update(tp)
        for t in st.raw_sites:
            m = st.map_site(t)
            if m is not None:
                st.sites.add(m)
        for t in resolved:
            m = st.map_site(t)
            if m is not None:
                st.resolved_sites.add(m)
                if t in bounds_seen:
                    o = st.bounds_seen.get(m, (0, 0))
                    st.bounds_seen[m] = (max(o[0], bounds_seen[t][0]), max(o[1], bounds_seen[t][1]))
        st.frames = box
        for mid, site, path in box:
            d = st.methods.get(mid)
            if d is not None:
                st.analysed_methods.add(d)
            m = st.map_site(site)
            if m is not None:
                st.frame_sites.add(m)
        return st
    finally:
        gcls.compute_target_method_states = orig_ctms
        if had_own:
            cls.analyze_stmts = orig
        else:
            try:
                del cls.analyze_stmts
            except AttributeError:
                pass
        shutil.rmtree(base, ignore_errors=True)


# ---------------------------------------------------------------------------------------------
# oracle

def fmt_def(d):
    return "%s:%d:%s" % (d[0], d[1], d[2])


def fmt_edge(e):
    return "%s --[%s:%d]--> %s" % (fmt_def(e[0]), e[1][0], e[1][1], fmt_def(e[2]))


def kind_of(kinds, e):
    k = kinds.get("%s:%d>%s:%d" % (e[1][0], e[1][1], e[2][0], e[2][1]))
    if k is None:
        k = kinds.get("%s:%d" % e[1])
    if k is None:
        return ("unlabelled", "-")
    if isinstance(k, str):
        return (k, "local")
    return (k[0], k[1])


def evaluate(case, dyn=None, st=None):
    """-> (list of (sig, what), info dict).  Never raises on a lian failure: that is reported as info['lian_exc']."""
    files = case["files"]
    main = case.get("main", "main.py")
    kinds = case.get("kinds", {})
    if dyn is None:
        dyn = dynamic_edges(files, main, case.get("entry"))
    info = {"dyn_error": dyn["error"], "dyn_events": len(dyn["events"])}
    events = dyn["events"]
    edges = {}
    for e, parent in events:
        edges.setdefault(e, 0)
    info["dyn_edges"] = len(edges)
    info["edge_kinds"] = sorted({kind_of(kinds, e) for e in edges})
    info["edges"] = edges
    if st is None:
        st = run_lian(files, enable_p2=bool(case.get("p2")), entry=case.get("entry"))
    info["static"] = st
    out = []
    if st.exc is not None:
        info["lian_exc"] = st.exc
        return out, info
    # Which dynamic events are demanded?  P3 is context-sensitive by call path, so the dynamic chain root..event is
    # compared with the call paths of the frames P3 analysed.
    #   path-demanded : the caller's frame was analysed under exactly the event's dynamic chain (or the caller is a root)
    #   site-demanded : every edge of the chain is stored and analysed under its call site, but not under this very path
    n = len(events)
    analysed_paths = set()
    for mid, site, path in st.frames:
        mp = tuple(st.map_site(t) for t in path)
        if all(x is not None for x in mp):
            analysed_paths.add(mp)
    paths = [None] * n       # dynamic chain as a tuple of edges
    pdem = [False] * n       # path-demanded
    sdem = [False] * n       # site-demanded (weaker)
    pana = [False] * n       # the event's callee frame was analysed under exactly this chain
    sana = [False] * n       # chain site-demanded, edge stored and analysed under its call site (some path)
    cyc = [0] * n            # CallPath.count_cycles() of the dynamic chain root..event (P3's recursion bound)
    visited = [None] * n
    for i, (e, parent) in enumerate(events):
        if parent == -1:
            pdem[i] = sdem[i] = True
            seen, c, pp = frozenset(), 0, ()
        elif parent >= 0:
            pdem[i] = pana[parent]
            sdem[i] = sana[parent]
            seen, c, pp = visited[parent], cyc[parent], paths[parent]
        else:
            seen, c, pp = frozenset(), 0, ()
        if e[2] in seen:
            c += 1
        cyc[i] = c
        visited[i] = seen | {e[0], e[2]}
        paths[i] = pp + (e,)
        pana[i] = pdem[i] and paths[i] in analysed_paths
        sana[i] = sdem[i] and (e in st.sites) and (e in st.frame_sites)
    primary_missing = {}     # edge -> min cycle count over its path-demanded occurrences
    context_missing = set()  # missing edges that are only site-demanded
    secondary = set()
    not_analysed = {}
    for i, (e, parent) in enumerate(events):
        if e in st.sites:
            if sdem[i] and e not in st.frame_sites:
                not_analysed[e] = min(not_analysed.get(e, 1 << 30), cyc[i])
            continue
        if pdem[i]:
            primary_missing[e] = min(primary_missing.get(e, 1 << 30), cyc[i])
        elif sdem[i]:
            context_missing.add(e)
        else:
            secondary.add(e)
    context_missing -= set(primary_missing)
    secondary -= set(primary_missing) | context_missing
    info["secondary_missing"] = len(secondary)
    info["primary_missing"] = sorted(primary_missing)
    info["context_missing"] = sorted(context_missing)
    info["not_analysed"] = sorted(not_analysed)
    info["present"] = sum(1 for e in edges if e in st.sites)

    BOUNDS = ("cycle-cutoff", "call-site-budget", "context-not-analysed", "skipped-below-the-bounds")
    try:
        from lian.config import config as _cfg
        MAX_CALL_SITE_ROUNDS = int(_cfg.MAX_ANALYSIS_ROUND_FOR_CALL_SITE)
    except Exception:
        MAX_CALL_SITE_ROUNDS = 2

    def classify_edge(e, mincyc, resolved):
        """root-cause class of a discrepancy on edge e.  resolved: the callee was among the callee ids that P3 computed
        for this call statement (recorded at compute_target_method_states), i.e. name resolution did not fail and the
        edge was lost by one of the skip rules of compute_target_method_states."""
        k, via = kind_of(kinds, e)
        if resolved:
            seen = st.bounds_seen.get(e)
            if seen is None:
                if mincyc >= 2:
                    return ("cycle-cutoff", "-")        # callee_path.count_cycles() > 1
                return ("call-site-budget", "-")        # call_site_analyze_counter > MAX_ANALYSIS_ROUND_FOR_CALL_SITE
            if seen[1] > 1:
                return ("cycle-cutoff", "-")
            if seen[0] > MAX_CALL_SITE_ROUNDS:
                return ("call-site-budget", "-")
            # resolved, neither bound was reached at any visit of the call statement, and still no frame / no edge
            return ("skipped-below-the-bounds", "-")
        if case.get("p2") and k in c07_gen.OBJECT_KINDS:
            # under --enable-p2 every call that needs a class or an instance fails alike: one root-cause family
            return ("object-call", "*")
        return (k, via)

    p2s = ", --enable-p2" if case.get("p2") else ""

    def tag_of(base, k):
        return base + "-p2" if (case.get("p2") and k not in BOUNDS) else base

    by_kind = {}
    for e in sorted(primary_missing):
        by_kind.setdefault(classify_edge(e, primary_missing[e], e in st.resolved_sites), []).append(e)
    for (k, via), es in sorted(by_kind.items()):
        out.append(((ID, tag_of("missing-edge", k), k, via),
                    "dynamic call %s (kind %s, via %s%s) is in no stored path of call_paths_p3 (%d such edge(s) in this project)" % (
                        fmt_edge(es[0]), k, via, p2s, len(es))))
    if context_missing:
        es = sorted(context_missing)
        out.append(((ID, "missing-edge", "context-not-analysed", "-"),
                    "dynamic call %s%s is in no stored path; its caller was analysed, but not under the call path of this "
                    "execution (that path is stored without an analysed frame), %d such edge(s)" % (fmt_edge(es[0]), p2s, len(es))))
    by_kind = {}
    for e in sorted(not_analysed):
        # the call site is stored, so its callee was resolved: only the skip rules can have kept the frame away
        by_kind.setdefault(classify_edge(e, not_analysed[e], True), []).append(e)
    for (k, via), es in sorted(by_kind.items()):
        out.append(((ID, tag_of("callee-not-analysed", k), k, via),
                    "call site %s (kind %s, via %s%s) is stored in a path but no P3 frame was analysed under it" % (
                        fmt_edge(es[0]), k, via, p2s)))
    return out, info


# ---------------------------------------------------------------------------------------------
# calibration of the mapping conventions (hand-written programs under replays/C07/calibration-*.json)

def edge_to_json(e):
    return [list(e[0]), list(e[1]), list(e[2])]


def edge_from_json(j):
    return (tuple(j[0]), tuple(j[1]), tuple(j[2]))


def check_calibration(case, dyn, st):
    """-> list of mismatch messages (harness errors): the conventions by which CPython events and lian ids are
    joined.  Only facts of the frontend (GIR) and of the storage format are asserted here; whether P3 FOUND an edge is
    decided by the ordinary oracle."""
    exp = case["expect"]
    errs = []
    if dyn["error"]:
        errs.append("calibration program raised %s" % dyn["error"])
    got_dyn = sorted({e for e, _ in dyn["events"]})
    want_dyn = sorted(edge_from_json(j) for j in exp["dynamic"])
    if got_dyn != want_dyn:
        errs.append("dynamic edges differ: got %s want %s" % ([fmt_edge(e) for e in got_dyn if e not in want_dyn],
                                                              [fmt_edge(e) for e in want_dyn if e not in got_dyn]))
    if st.exc is not None:
        errs.append("lian failed on calibration program: %s" % st.exc)
        return errs
    got_defs = sorted(st.methods.values())
    want_defs = sorted(tuple(d) for d in exp["defs"])
    if got_defs != want_defs:
        errs.append("method_decl table differs: got %s want %s" % (got_defs, want_defs))
    # every raw call site of every stored path must map (no entry marker, no foreign ids); callee may be a class_decl
    for t in sorted(st.raw_sites):
        if t[0] not in st.methods or t[1] not in st.stmt_line or (t[2] not in st.methods and t[2] not in st.classes):
            errs.append("unmappable call site %r in call_paths_p3" % (t,))
    # the pinned static call sites (conventions: constructor -> __init__, call line = start_row + 1, ...)
    want_sites = sorted(edge_from_json(j) for j in exp.get("static_sites", []))
    missing = [e for e in want_sites if e not in st.sites]
    if missing and exp.get("static_sites_strict", False):
        errs.append("pinned static call sites absent: %s" % [fmt_edge(e) for e in missing])
    entry_defs = sorted(st.methods[e] for e in st.entry_points if e in st.methods)
    if "entry_points" in exp and entry_defs != sorted(tuple(d) for d in exp["entry_points"]):
        errs.append("entry points differ: got %s want %s" % (entry_defs, exp["entry_points"]))
    return errs


# ---------------------------------------------------------------------------------------------
# self-check of the in-process driver: the same project through a fresh `lian run` process, read from the files

def cli_sites(case):
    """-> (set of mapped call sites read from <workspace>/semantic_p3/call_paths_p3 + frontend/gir.bundle*, error)"""
    import pandas as pd
    from harness import lianrun
    base = tempfile.mkdtemp(prefix="lianverif-c07cli-")
    try:
        src = os.path.join(base, "in")
        for rel, text in case["files"].items():
            q = os.path.join(src, rel)
            os.makedirs(os.path.dirname(q), exist_ok=True)
            with open(q, "w", encoding="utf-8") as f:
                f.write(text)
        sd = lianrun.write_settings(os.path.join(base, "settings"), entry=[{"method_list": ["%unit_init"]}])
        ws = os.path.join(base, "ws")
        argv = ["run", "-l", "python", "-f", "-q", "-w", ws, "--nomock", "--default-settings", sd]
        if case.get("p2"):
            argv.append("--enable-p2")
        r = lianrun.run_cli(argv + [src], cwd=base)
        if r.returncode != 0:
            return None, "lian run exited %d: %s" % (r.returncode, r.stdout[-300:])
        w = os.path.join(ws, "lian_workspace")
        ms = pd.read_feather(os.path.join(w, "frontend", "module_symbols"))
        root = os.path.realpath(src) + os.sep
        unit_rel = {}
        for row in ms.itertuples():
            op = getattr(row, "original_path", None)
            if isinstance(op, str) and op:
                rp = os.path.realpath(op)
                unit_rel[int(row.module_id)] = rp[len(root):] if rp.startswith(root) else os.path.basename(rp)
        methods, stmt_line = {}, {}
        for name in sorted(os.listdir(os.path.join(w, "frontend"))):
            if not name.startswith("gir.bundle"):
                continue
            g = pd.read_feather(os.path.join(w, "frontend", name))
            for row in g.itertuples():
                rel = unit_rel.get(int(row.unit_id))
                if rel is None:
                    continue
                line = 0 if _nan(row.start_row) else int(row.start_row) + 1
                sid = int(row.stmt_id)
                if row.operation == "method_decl":
                    nm = str(row.name)
                    if nm.startswith("%mm"):
                        nm = "<lambda>"
                    methods[sid] = (rel, 0 if nm == "%unit_init" else line, nm)
                if row.operation not in ("block_start", "block_end") and sid not in stmt_line:
                    stmt_line[sid] = (rel, line)
        sites = set()
        pth = os.path.join(w, "semantic_p3", "call_paths_p3")
        if os.path.exists(pth):
            df = pd.read_feather(pth)
            for path in df.call_path:
                for cs in path:
                    a, b, c = int(cs[0]), int(cs[1]), int(cs[2])
                    if a in methods and b in stmt_line and c in methods:
                        sites.add((methods[a], stmt_line[b], methods[c]))
        return sites, None
    except Exception as e:      # noqa
        return None, "%s: %s" % (type(e).__name__, e)
    finally:
        shutil.rmtree(base, ignore_errors=True)


def cli_shard(path):
    col = Collector()
    case = common.load_replay(path)["case"]
    st = run_lian(case["files"], enable_p2=bool(case.get("p2")))
    sites, err = cli_sites(case)
    col.extra["cli_cross_checks"] += 1
    if err:
        col.error("cli self-check %s: %s" % (os.path.basename(path), err))
    elif st.exc is not None or sites != st.sites:
        col.error("cli self-check %s: call sites read from a fresh `lian run` differ from the in-process ones: only-cli %s only-inproc %s" % (
            os.path.basename(path), sorted(sites - st.sites)[:3], sorted(st.sites - sites)[:3]))
    return col


# ---------------------------------------------------------------------------------------------
# running cases

def slim(case):
    out = {"files": case["files"], "main": case.get("main", "main.py"), "kinds": case.get("kinds", {}),
           "p2": bool(case.get("p2"))}
    if case.get("entry"):
        out["entry"] = case["entry"]
    return out


def run_case(col, case, count=True):
    """Execute one case, record labels and discrepancies into col.  Returns (out, info)."""
    dyn = dynamic_edges(case["files"], case.get("main", "main.py"), case.get("entry"))
    if dyn["error"]:
        col.discards["program-raised:" + dyn["error"].split(":")[0]] += 1
        return [], {"dyn_error": dyn["error"]}
    out, info = evaluate(case, dyn=dyn)
    if count:
        col.case()
    if info.get("lian_exc"):
        exc = info["lian_exc"]
        col.discrepancy((ID, "analysis-failed", exc.split(":")[0], "p2" if case.get("p2") else "default"),
                        "lian raised %s on a generated project" % exc, slim(case))
        return out, info
    kinds = info["edge_kinds"]
    for k in sorted({k for k, _ in kinds}):
        col.label("kind:" + k)
    for via in sorted({v for _, v in kinds}):
        col.label("via:" + via)
    col.label("files:%d" % len(case["files"]))
    if case.get("p2"):
        col.label("mode:enable-p2")
    col.label("entry:configured-method" if case.get("entry") else "entry:%unit_init")
    col.extra["dynamic_edges"] += info["dyn_edges"]
    col.extra["dynamic_edges_present"] += info["present"]
    col.extra["secondary_missing_edges"] += info["secondary_missing"]
    col.extra["p3_frames"] += len(info["static"].frames)
    if info["dyn_edges"] >= 3 and len({k for k, _ in kinds}) >= 2:
        col.nontriv(common.jhash([case["files"], bool(case.get("p2"))]))
        col.label("nontrivial")
    for sig, what in out:
        col.discrepancy(sig, what, slim(case))
    return out, info


def avoid_set():
    """(kind, via) pairs the generator steps over: one per open known finding of the form
    [C07, missing-edge, kind, via] (wildcards allowed)."""
    av = set()
    for e in common.load_known(ID):
        sig = e.get("signature", [])
        if e.get("status") == "open" and len(sig) == 4 and sig[1] == "missing-edge":
            av.add((sig[2], sig[3]))
    return sorted(av)


def gen_shard(arg):
    seed, n, avoid, p2_pct, extended = arg
    import hypothesis
    from hypothesis import settings, HealthCheck, strategies as st
    from harness import c07_gen, lianrun
    col = Collector()

    p2_no_classes = any(e.get("status") == "open" and list(e.get("signature", []))[1:3] == ["missing-edge-p2", "object-call"]
                        for e in common.load_known(ID))

    counter = [0]

    @st.composite
    def cases(draw):
        # Hypothesis draws the salt; it is mixed with the shard seed and the running example number because Hypothesis'
        # bounded integers are heavily biased towards small magnitudes (41 % duplicate projects in a 16 000-case run
        # when the generator was seeded with the drawn integer alone).  Still a pure function of VERIF_SEED.
        salt = draw(st.integers(0, 2 ** 48 - 1))
        counter[0] += 1
        h = int.from_bytes(hashlib.blake2b(("%d:%d:%d" % (seed, counter[0], salt)).encode(), digest_size=8).digest(), "big")
        p2 = bool(p2_pct) and (h % 100) < p2_pct
        gseed = h >> 8
        case = c07_gen.Gen(c07_gen.RandomChooser(gseed), avoid=avoid, extended=extended,
                           no_classes=p2 and p2_no_classes).build()
        case["p2"] = p2
        case["gen_seed"] = gseed
        return case

    @hypothesis.seed(seed)
    @settings(max_examples=n, deadline=None, database=None, derandomize=False, report_multiple_bugs=False,
              suppress_health_check=list(HealthCheck), phases=[hypothesis.Phase.generate])
    @hypothesis.given(cases())
    def prop(case):
        for k, v in case.get("stepped", {}).items():
            col.stepovers["C07/missing-edge/" + k] += v
        out, info = run_case(col, case)
        if len(col.samples) < 1 and not out and "dyn_edges" in info:
            col.sample({"files": case["files"], "kinds": case["kinds"], "dynamic_edges": info["dyn_edges"],
                        "present": info["present"]})

    try:
        prop()
    finally:
        lianrun.cleanup_scratch()
    return col


def check_case(case):
    col = Collector()
    out, info = run_case(col, case, count=False)
    return out, info, col


def replay(path):
    from harness import lianrun
    try:
        return _replay(path)
    finally:
        lianrun.cleanup_scratch()


def _replay(path):
    rec = common.load_replay(path)
    case = rec["case"]
    out, info, col = check_case(case)
    if case.get("calibration"):
        dyn = dynamic_edges(case["files"], case.get("main", "main.py"))
        errs = check_calibration(case, dyn, info["static"]) if "static" in info else ["no static result"]
        for e in errs:
            print("HARNESS-ERROR: property=%s calibration %s: %s" % (ID, os.path.basename(path), e))
        if errs:
            return 2
    sigs = [(sig, b["what"]) for sig, b in col.buckets.items()]
    code = 0
    for sig, what in sigs:
        kind, _ = common.classify(ID, tuple(sig))
        if kind == "known" and not os.environ.get("VERIF_CONFIRM"):
            print("KNOWN-FINDING: property=%s %s" % (ID, what))
            continue
        print("VIOLATION property=%s replay=%s" % (ID, path))
        print("  signature=%s %s" % (list(sig), what))
        code = 1
    if code == 0 and not sigs:
        print("%s replay %s: holds" % (ID, path))
    return code


def main(tier, seed, t0):
    from harness import lianrun
    try:
        return _main(tier, seed, t0)
    finally:
        lianrun.cleanup_scratch()       # check.py leaves through os._exit: atexit handlers do not run


def _main(tier, seed, t0):
    col = Collector()
    # 1. calibration programs and committed regression inputs
    for path in common.replay_files(ID):
        rec = common.load_replay(path)
        case = rec["case"]
        out, info = run_case(col, case)
        col.label("replayed")
        if case.get("calibration"):
            col.label("calibration")
            dyn = dynamic_edges(case["files"], case.get("main", "main.py"))
            if "static" not in info:
                col.error("calibration %s: no static result (%s)" % (os.path.basename(path), info))
                continue
            for e in check_calibration(case, dyn, info["static"]):
                col.error("calibration %s: %s" % (os.path.basename(path), e))
    if col.errors:
        return common.finish(ID, tier, seed, col, t0, RULE, ASSUMPTIONS)
    # 1b. self-check of the in-process driver against a fresh `lian run` process (files on disk)
    cal = [q for q in common.replay_files(ID) if os.path.basename(q).startswith("calibration-")]
    cal = cal if tier == "thorough" else cal[5:6] + cal[-1:]
    col.merge(common.run_shards(cli_shard, cal))
    if col.errors:
        return common.finish(ID, tier, seed, col, t0, RULE, ASSUMPTIONS)
    # 2. generated projects
    avoid = avoid_set()
    if tier == "quick":
        total, p2_pct = 416, 0
    else:
        total, p2_pct = 10000, 20
    nsh = max(1, common.NCPU) * (1 if tier == "quick" else 4)
    per = (total + nsh - 1) // nsh
    args = [(common.shard_seed(seed, i), per, avoid, p2_pct, True) for i in range(nsh)]
    col.merge(common.run_shards(gen_shard, args))
    col.notes.append("stepped-over (kind, via) pairs: %s" % (avoid,))
    # 3. thorough tier: reduce the example of every unclassified signature (unit removal preserving the signature)
    if tier == "thorough":
        for sig, b in list(col.buckets.items()):
            kind, _ = common.classify(ID, sig)
            if kind == "new" and sig[1] != "analysis-failed":
                try:
                    b["examples"] = [reduce_case(b["examples"][0], sig, max_lian_runs=80)]
                except Exception as e:       # noqa
                    col.notes.append("reduction of %s failed: %r" % (list(sig), e))
    return common.finish(ID, tier, seed, col, t0, RULE, ASSUMPTIONS)


# ---------------------------------------------------------------------------------------------
# reduction of a failing project (used for new signatures and for preparing minimal replays)

def _to_lines(case):
    """{file: [(text, line label or None, uid)]} plus the edge-specific labels as (uid call line, uid callee def line, label)"""
    kinds = case.get("kinds", {})
    out = {}
    uid = {}
    n = 0
    for rel, text in case["files"].items():
        ls = []
        for i, t in enumerate(text.splitlines()):
            n += 1
            uid["%s:%d" % (rel, i + 1)] = n
            ls.append((t, kinds.get("%s:%d" % (rel, i + 1)), n))
        out[rel] = ls
    edge_labels = []
    for k, v in kinds.items():
        if ">" in k:
            a, b = k.split(">")
            if a in uid and b in uid:
                edge_labels.append((uid[a], uid[b], v))
    out["\0edge"] = edge_labels
    return out


def _from_lines(lines, main, p2, entry=None):
    files, kinds = {}, {}
    pos = {}
    for rel, ls in lines.items():
        if rel == "\0edge":
            continue
        files[rel] = "\n".join(t for t, _, _ in ls) + "\n"
        for i, (t, k, u) in enumerate(ls):
            pos[u] = "%s:%d" % (rel, i + 1)
            if k is not None:
                kinds["%s:%d" % (rel, i + 1)] = k
    for a, b, v in lines.get("\0edge", []):
        if a in pos and b in pos:
            kinds["%s>%s" % (pos[a], pos[b])] = v
    out = {"files": files, "main": main, "kinds": kinds, "p2": p2}
    if entry:
        out["entry"] = entry
    return out


def _units(ls):
    """removable units of one file: (start, end) index ranges = a line plus the following deeper-indented lines"""
    units = []
    n = len(ls)
    for i, (t, _, _) in enumerate(ls):
        if not t.strip():
            continue
        ind = len(t) - len(t.lstrip())
        j = i + 1
        while j < n and (not ls[j][0].strip() or len(ls[j][0]) - len(ls[j][0].lstrip()) > ind):
            j += 1
        while j > i + 1 and not ls[j - 1][0].strip():
            j -= 1
        units.append((i, j))
    return units


def reduce_case(case, sig, max_lian_runs=120, log=None):
    """Greedy unit removal preserving (a) a clean CPython run, (b) a discrepancy with signature sig."""
    sig = tuple(sig)
    main = case.get("main", "main.py")
    p2 = bool(case.get("p2"))
    runs = [0]

    def fails(lines):
        cand = _from_lines(lines, main, p2, case.get("entry"))
        if main not in cand["files"]:
            return False
        try:
            for rel, text in cand["files"].items():
                compile(text, rel, "exec")
        except SyntaxError:
            return False
        dyn = dynamic_edges(cand["files"], main, case.get("entry"))
        if dyn["error"]:
            return False
        if runs[0] >= max_lian_runs:
            return False
        runs[0] += 1
        out, info = evaluate(cand, dyn=dyn)
        return any(tuple(s) == sig for s, _ in out)

    lines = _to_lines(case)
    changed = True
    while changed and runs[0] < max_lian_runs:
        changed = False
        # whole files first
        for rel in sorted(lines):
            if rel == main or rel == "\0edge":
                continue
            cand = {k: v for k, v in lines.items() if k != rel}
            if fails(cand):
                lines = cand
                changed = True
        for rel in sorted(lines):
            if rel == "\0edge":
                continue
            units = sorted(_units(lines[rel]), key=lambda u: (-(u[1] - u[0]), u[0]))
            removed = []
            for (a, b) in units:
                if any(not (b <= ra or a >= rb) for ra, rb in removed):
                    continue
                shift = sum(rb - ra for ra, rb in removed if rb <= a)
                cur = lines[rel]
                cand_ls = cur[:a - shift] + cur[b - shift:]
                cand = dict(lines)
                cand[rel] = cand_ls
                if fails(cand):
                    lines = cand
                    removed.append((a, b))
                    changed = True
                    if log:
                        log("removed %s:%d-%d (lian runs %d)" % (rel, a + 1, b, runs[0]))
    return _from_lines(lines, main, p2, case.get("entry"))
