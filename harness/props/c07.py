"""C07 — every call that can happen at run time is in the computed call graph.

Generated 1-3 file Python programs with many kinds of call sites (harness/c07_gen.py); dynamic ground
truth from CPython's sys.setprofile; compared with the call sites stored in lian's call_paths_p3 and
with the frames P3 actually analysed (recorded by wrapping P3GlobalSemanticAnalysis.analyze_stmts
from the harness process).
"""
import glob
import importlib
import json
import os
import runpy
import shutil
import sys
import tempfile

from harness import common
from harness.common import Collector

ID = "C07"

RULE = ("Hypothesis-generated Python projects of 1-3 files (harness/c07_gen.py): module-level functions, classes with "
        "own/inherited __init__ and methods, nested functions; every call on its own line, every call line labelled by "
        "the generator with its call kind (direct, from-import, module-attribute, constructor, method, inherited "
        "method, self-method, callback positional/keyword, returned function/closure, stored in variable/field/list/"
        "dict, recursion, mutual recursion, ...). The program is executed by CPython under sys.setprofile; every "
        "Python-level call among the program's own functions is a dynamic edge (caller def, call line, callee def). "
        "lian runs with entry rule %unit_init. Oracle: every dynamic edge whose dynamic call chain from module code is "
        "itself present statically ('primary') must occur as a CallSite in some stored path of call_paths_p3, and a "
        "P3 frame with that call site must have been analysed. Non-trivial = >= 3 distinct dynamic edges on call lines "
        "of >= 2 kinds; distinct by hash of the project's files.")

ASSUMPTIONS = [
    "ground truth is one concrete CPython execution per program (programs are deterministic and take no input), so "
    "only edges that really happen are demanded; dead call sites are not checked",
    "ids are joined by (file, 1-based line, name): method_decl start_row+1 = co_firstlineno, call statement "
    "start_row+1 = f_back.f_lineno; %unit_init = module code; pinned by replays/C07/calibration-*.json on every run",
    "a constructor call K() is the dynamic edge to the __init__ that CPython runs (own or inherited); classes without "
    "any Python-level __init__ produce no dynamic edge and nothing is demanded",
    "an edge is only demanded when every edge of (one of) its dynamic call chain(s) down from module code is present "
    "in the static result, so that one root cause is not reported again under the kinds of the calls behind it",
    "module code of an imported file is a root (lian: %unit_init of that unit is an entry point); the implicit 'call' "
    "of an imported module's code and of class bodies are not call edges",
]

LINE_BUDGET = 200000
CALL_BUDGET = 20000


# ---------------------------------------------------------------------------------------------
# dynamic ground truth

class BudgetExceeded(BaseException):
    pass


def dynamic_edges(files, main):
    """Execute the project under sys.setprofile.
    -> {"edges": {edge: primary_parent_info}, "events": [(edge, parent_event_index)], "error": str|None}
    edge = (caller_def, (file, line), callee_def); def = (file, firstlineno, name); module code = (file, 0, '%unit_init')."""
    d = tempfile.mkdtemp(prefix="lianverif-c07run-")
    real = os.path.realpath(d)
    for rel, text in files.items():
        p = os.path.join(real, rel)
        os.makedirs(os.path.dirname(p), exist_ok=True)
        with open(p, "w", encoding="utf-8") as f:
            f.write(text)
    prefix = real + os.sep
    events = []            # (edge, parent event index or -1 for "called from module code")
    frame_event = {}       # id(frame) -> event index (live frames only)
    counters = {"calls": 0, "lines": 0}
    CO_OPTIMIZED = 0x1

    def defof(code):
        fn = code.co_filename
        if not fn.startswith(prefix):
            return None
        rel = fn[len(prefix):]
        if code.co_name == "<module>":
            return (rel, 0, "%unit_init")
        if not (code.co_flags & CO_OPTIMIZED):
            return (rel, code.co_firstlineno, "<classbody>" + code.co_name)
        return (rel, code.co_firstlineno, code.co_name)

    def prof(frame, event, arg):
        if event == "call":
            code = frame.f_code
            if not code.co_filename.startswith(prefix):
                return
            counters["calls"] += 1
            if counters["calls"] > CALL_BUDGET:
                raise BudgetExceeded("call budget")
            callee = defof(code)
            if callee is None or callee[2] == "%unit_init" or callee[2].startswith("<classbody>"):
                return
            back = frame.f_back
            if back is None:
                return
            caller = defof(back.f_code)
            if caller is None:
                return
            edge = (caller, (caller[0], back.f_lineno), callee)
            parent = frame_event.get(id(back), -1)
            if caller[2].startswith("<classbody>"):
                parent = -2
            events.append((edge, parent))
            frame_event[id(frame)] = len(events) - 1
        elif event == "return":
            frame_event.pop(id(frame), None)

    def tracer(frame, event, arg):
        if not frame.f_code.co_filename.startswith(prefix):
            return None
        return line_tracer

    def line_tracer(frame, event, arg):
        if event == "line":
            counters["lines"] += 1
            if counters["lines"] > LINE_BUDGET:
                raise BudgetExceeded("line budget")
        return line_tracer

    error = None
    old_path = list(sys.path)
    old_dwb = sys.dont_write_bytecode
    old_mods = set(sys.modules)
    old_rec = sys.getrecursionlimit()
    sys.dont_write_bytecode = True
    sys.path.insert(0, real)
    importlib.invalidate_caches()
    try:
        sys.setrecursionlimit(400)
        sys.settrace(tracer)
        sys.setprofile(prof)
        try:
            runpy.run_path(os.path.join(real, main), run_name="__main__")
        finally:
            sys.setprofile(None)
            sys.settrace(None)
    except BaseException as e:       # noqa: the generated program may raise anything
        if isinstance(e, KeyboardInterrupt):
            raise
        error = "%s: %s" % (type(e).__name__, str(e)[:200])
    finally:
        sys.setrecursionlimit(old_rec)
        sys.path[:] = old_path
        sys.dont_write_bytecode = old_dwb
        for name in list(sys.modules):
            if name not in old_mods:
                m = sys.modules.get(name)
                f = getattr(m, "__file__", None) or ""
                if f.startswith(prefix) or name == "__main__":
                    if name != "__main__":
                        del sys.modules[name]
        for k in list(sys.path_importer_cache):
            if k == real or k.startswith(prefix):
                del sys.path_importer_cache[k]
        shutil.rmtree(d, ignore_errors=True)
    return {"events": events, "error": error, "calls": counters["calls"], "lines": counters["lines"]}


# ---------------------------------------------------------------------------------------------
# static side

def _nan(x):
    return x is None or x != x


class Static:
    def __init__(self):
        self.exc = None
        self.methods = {}      # method id -> def (file, line, name)
        self.classes = {}      # class id -> def
        self.stmt_line = {}    # stmt id -> (file, line)
        self.raw_sites = set()     # (caller_id, call_stmt_id, callee_id) over all stored paths
        self.sites = set()         # mapped (caller_def, (file, line), callee_def)
        self.paths = []
        self.frames = []           # (method_id, call_site tuple, call_path tuple of tuples)
        self.frame_sites = set()   # mapped call sites of analysed frames
        self.analysed_methods = set()   # defs with >= 1 analysed frame
        self.entry_points = set()
        self.stdout = ""

    def map_site(self, t):
        caller, stmt, callee = t
        c = self.methods.get(caller)
        s = self.stmt_line.get(stmt)
        k = self.methods.get(callee)
        if c is None or s is None or k is None:
            return None
        return (c, s, k)


def run_lian(files, enable_p2=False):
    from harness import lianrun
    lianrun._import()
    from lian.core import global_semantics as gs
    st = Static()
    box = []
    cls = gs.P3GlobalSemanticAnalysis
    had_own = "analyze_stmts" in cls.__dict__
    orig = cls.analyze_stmts

    def rec(self, frame):
        try:
            box.append((int(frame.method_id),
                        (int(frame.caller_id), int(frame.call_stmt_id), int(frame.method_id)),
                        tuple((int(a.caller_id), int(a.call_stmt_id), int(a.callee_id)) for a in frame.call_path)))
        except Exception:
            pass
        return orig(self, frame)

    cls.analyze_stmts = rec
    base = tempfile.mkdtemp(prefix="proj-", dir=lianrun.scratch_dir())
    res = None
    try:
        sd = lianrun.write_settings(os.path.join(base, "settings"), entry=[{"method_list": ["%unit_init"]}])
        res = lianrun.analyze(files, settings_dir=sd, lang="python", enable_p2=enable_p2, workdir=base,
                              capture_flows=False)
        st.stdout = res.stdout[-3000:]
        if res.exc is not None:
            st.exc = "%s: %s" % (type(res.exc).__name__, str(res.exc)[:300])
            return st
        loader = res.loader
        src_root = os.path.realpath(res.inputs) + os.sep
        for info in loader.get_all_unit_info():
            unit_id = int(info.module_id)
            op = os.path.realpath(str(info.original_path))
            rel = op[len(src_root):] if op.startswith(src_root) else os.path.basename(op)
            gir = loader.get_unit_gir(unit_id)
            if gir is None:
                continue
            for row in gir:
                sid = int(row.stmt_id)
                sr = row.start_row
                line = 0 if _nan(sr) else int(sr) + 1
                opn = row.operation
                if opn == "method_decl":
                    name = str(row.name)
                    st.methods[sid] = (rel, 0 if name == "%unit_init" else line, name)
                elif opn == "class_decl":
                    st.classes[sid] = (rel, line, str(row.name))
                if opn not in ("block_start", "block_end") and sid not in st.stmt_line:
                    st.stmt_line[sid] = (rel, line)
        st.entry_points = {int(e) for e in loader.get_entry_points()}
        for p in loader.get_call_paths_p3():
            tp = tuple((int(cs.caller_id), int(cs.call_stmt_id), int(cs.callee_id)) for cs in p)
            st.paths.append(tp)
            st.raw_sites.update(tp)
        for t in st.raw_sites:
            m = st.map_site(t)
            if m is not None:
                st.sites.add(m)
        st.frames = box
        for mid, site, path in box:
            d = st.methods.get(mid)
            if d is not None:
                st.analysed_methods.add(d)
            m = st.map_site(site)
            if m is not None:
                st.frame_sites.add(m)
        return st
    finally:
        if had_own:
            cls.analyze_stmts = orig
        else:
            try:
                del cls.analyze_stmts
            except AttributeError:
                pass
        shutil.rmtree(base, ignore_errors=True)


# ---------------------------------------------------------------------------------------------
# oracle

def fmt_def(d):
    return "%s:%d:%s" % (d[0], d[1], d[2])


def fmt_edge(e):
    return "%s --[%s:%d]--> %s" % (fmt_def(e[0]), e[1][0], e[1][1], fmt_def(e[2]))


def evaluate(case, dyn=None, st=None):
    """-> (list of (sig, what), info dict).  Never raises on a lian failure: that is reported as info['lian_exc']."""
    files = case["files"]
    main = case.get("main", "main.py")
    kinds = case.get("kinds", {})
    if dyn is None:
        dyn = dynamic_edges(files, main)
    info = {"dyn_error": dyn["error"], "dyn_events": len(dyn["events"])}
    events = dyn["events"]
    edges = {}
    for e, parent in events:
        edges.setdefault(e, 0)
    info["dyn_edges"] = len(edges)
    info["edge_kinds"] = sorted({kinds.get("%s:%d" % e[1], "unlabelled") for e in edges})
    info["edges"] = edges
    if st is None:
        st = run_lian(files, enable_p2=bool(case.get("p2")))
    info["static"] = st
    out = []
    if st.exc is not None:
        info["lian_exc"] = st.exc
        return out, info
    # reachability of dynamic events through statically present edges
    ok = [False] * len(events)       # event's own edge present and its chain present
    chain = [False] * len(events)    # chain above the event is present (so the event is demanded)
    for i, (e, parent) in enumerate(events):
        if parent == -1:
            chain[i] = True
        elif parent >= 0:
            chain[i] = ok[parent]
        else:
            chain[i] = False
        ok[i] = chain[i] and (e in st.sites)
    primary_missing = {}
    secondary = set()
    not_analysed = {}
    for i, (e, parent) in enumerate(events):
        if e in st.sites:
            if chain[i] and e not in st.frame_sites:
                not_analysed.setdefault(e, i)
            continue
        if chain[i]:
            primary_missing.setdefault(e, i)
        else:
            secondary.add(e)
    secondary -= set(primary_missing)
    info["secondary_missing"] = len(secondary)
    info["primary_missing"] = sorted(primary_missing)
    info["present"] = sum(1 for e in edges if e in st.sites)
    by_kind = {}
    for e in sorted(primary_missing):
        k = kinds.get("%s:%d" % e[1], "unlabelled")
        by_kind.setdefault(k, []).append(e)
    for k, es in sorted(by_kind.items()):
        out.append(((ID, "missing-edge", k),
                    "dynamic call %s (kind %s) is in no stored path of call_paths_p3 (%d such edge(s) of this kind)" % (
                        fmt_edge(es[0]), k, len(es))))
    by_kind = {}
    for e in sorted(not_analysed):
        k = kinds.get("%s:%d" % e[1], "unlabelled")
        by_kind.setdefault(k, []).append(e)
    for k, es in sorted(by_kind.items()):
        out.append(((ID, "callee-not-analysed", k),
                    "call site %s (kind %s) is stored in a path but no P3 frame was analysed under it" % (fmt_edge(es[0]), k)))
    return out, info
