"""C19 — the call-path store keeps exactly the maximal paths.

Exhaustive enumeration of operation sequences over a small path universe + a Hypothesis
RuleBasedStateMachine over the full 3-call-site alphabet, both against a set model.
"""
import itertools
import os
import time

from harness import common
from harness.common import Collector

ID = "C19"

RULE = ("operation sequences over {add(p), remove(p)} with path_exists(q) for every q of the universe and "
        "PathManager.paths compared with a set model after every step; enumerated exhaustively per universe "
        "(see coverage.universes) and sampled by a Hypothesis state machine (3 valid call sites + 1 invalid, "
        "paths <= 4, <= 40 steps). Non-trivial = the sequence contains an add that evicts a stored proper "
        "prefix, or an add after a successful remove of a path sharing a non-empty prefix with it; distinct "
        "by sequence (enumeration has no duplicates; sampled sequences are hashed).")

ASSUMPTIONS = [
    "paths are built with CallPath.add_call, so the empty path is outside the API's domain and is not generated",
    "an 'invalid call site' is one with a negative id (CallSite.has_negative)",
    "remove(p) of a path that is not stored is a no-op returning False (what every caller relies on)",
]


def _lian():
    import builtins
    if not hasattr(builtins, "profile"):
        builtins.profile = lambda f: f
    from lian import common_structs
    return common_structs


# call sites are referred to by letters; X is invalid (negative id)
SITES = {"A": (11, 101, 12), "B": (12, 102, 13), "C": (13, 103, 11), "X": (11, -1, 12), "Y": (-5, 104, 12)}


def mk_path(cs, word):
    p = cs.CallPath()
    for ch in word:
        p = p.add_call(*SITES[ch])
    return p


def words(alphabet, maxlen):
    out = []
    for n in range(1, maxlen + 1):
        for t in itertools.product(alphabet, repeat=n):
            out.append("".join(t))
    return out


def is_invalid(word):
    return any(ch in "XY" for ch in word)


class Model:
    def __init__(self):
        self.s = set()

    def add(self, w):
        if is_invalid(w):
            return False
        if w in self.s:
            return False
        for m in self.s:
            if len(m) > len(w) and m.startswith(w):
                return False
        for m in [m for m in self.s if len(m) < len(w) and w.startswith(m)]:
            self.s.discard(m)
        self.s.add(w)
        return True

    def remove(self, w):
        if w in self.s:
            self.s.discard(w)
            return True
        return False


def run_sequence(cs, seq, universe, pathobjs):
    """Execute seq (list of (op, word)) against PathManager and the model.
    Returns (discrepancy or None, nontrivial flag)."""
    pm = cs.PathManager()
    model = Model()
    removed = []       # words successfully removed so far
    nontrivial = False
    for step, (op, w) in enumerate(seq):
        p = pathobjs[w]
        if op == "add":
            before = set(model.s)
            exp = model.add(w)
            if exp:
                if any(len(m) < len(w) and w.startswith(m) for m in before):
                    nontrivial = True
                if any(r[0] == w[0] for r in removed):
                    nontrivial = True
            got = pm.add_path(p)
        else:
            exp = model.remove(w)
            if exp:
                removed.append(w)
            got = pm.remove_path(p)
        stored = pm.paths
        exp_paths = {pathobjs[m] for m in model.s}
        if stored != exp_paths:
            lost = sorted(m for m in model.s if pathobjs[m] not in stored)
            extra = sorted(u for u in universe if pathobjs[u] in stored and u not in model.s)
            if any(is_invalid(e) for e in extra):
                kind = "invalid-path-stored"
            elif lost and op == "add" and not got and removed:
                kind = "add-refused-after-remove"
            elif lost:
                kind = "maximal-path-lost"
            else:
                kind = "non-maximal-or-removed-path-kept"
            return ((ID, "stored-set", kind, op),
                    "step %d %s(%s): stored=%s model=%s" % (step, op, w, sorted(u for u in universe if pathobjs[u] in stored), sorted(model.s))), nontrivial
        if len(stored) != len(exp_paths):
            return ((ID, "stored-set", "duplicate", op), "step %d %s(%s): duplicate paths" % (step, op, w)), nontrivial
        if bool(got) != bool(exp):
            return ((ID, "return-value", op, "got-%s" % bool(got)),
                    "step %d %s(%s) returned %r, model %r" % (step, op, w, got, exp)), nontrivial
        for q in universe:
            e = q in model.s
            g = pm.path_exists(pathobjs[q])
            if bool(g) != e:
                return ((ID, "path_exists", "got-%s" % bool(g), op),
                        "step %d after %s(%s): path_exists(%s)=%r model %r" % (step, op, w, q, g, e)), nontrivial
    return None, nontrivial


UNIVERSES = {
    # name: (valid alphabet, maxlen of valid words, invalid words)
    "U2x3": ("AB", 3, ["X", "AX", "XA", "AXB"]),
    "U2x2": ("AB", 2, ["X", "AY"]),
    "U3x2": ("ABC", 2, ["X"]),
}


def universe_ops(name):
    alpha, maxlen, invalid = UNIVERSES[name]
    valid = words(alpha, maxlen)
    universe = valid + invalid
    ops = [("add", w) for w in universe] + [("remove", w) for w in valid]
    return universe, ops


def enum_shard(arg):
    """Enumerate all sequences of exactly `length` ops of universe `name` whose first op index is in
    `firsts` (shorter sequences are prefixes: every step is checked, so they are covered too)."""
    name, length, firsts = arg
    cs = _lian()
    universe, ops = universe_ops(name)
    pathobjs = {w: mk_path(cs, w) for w in universe}
    col = Collector()
    for first in firsts:
        for rest in itertools.product(ops, repeat=length - 1):
            seq = (ops[first],) + rest
            d, nontriv = run_sequence(cs, seq, universe, pathobjs)
            col.evaluations += 1
            if nontriv:
                col.nontrivial_enum += 1
            if d:
                col.discrepancy(d[0], d[1], {"kind": "sequence", "universe": name, "ops": [list(o) for o in seq]})
            if col.evaluations % 50021 == 1:
                col.sample({"universe": name, "ops": [list(o) for o in seq], "outcome": "discrepancy" if d else "agrees"})
    col.extra["enumerated:%s:len%d" % (name, length)] += col.evaluations
    return col


def machine_shard(arg):
    seed, n_examples, steps = arg
    cs = _lian()
    import hypothesis
    from hypothesis import settings, strategies as st, HealthCheck
    col = Collector()
    alpha_valid = "ABC"
    word_st = st.one_of(
        st.text(alphabet=alpha_valid, min_size=1, max_size=4),
        st.text(alphabet=alpha_valid + "XY", min_size=1, max_size=4),
    )
    # a sequence is generated as a whole so that it shrinks as one value and is replayable without Hypothesis
    op_st = st.tuples(st.sampled_from(["add", "add", "remove"]), word_st)
    # bias: re-use earlier words and their prefixes/extensions
    def seq_strategy():
        @st.composite
        def s(draw):
            n = draw(st.integers(2, steps))
            seq = []
            for _ in range(n):
                if seq and draw(st.integers(0, 9)) < 6:
                    op = draw(st.sampled_from(["add", "add", "remove"]))
                    base = draw(st.sampled_from(seq))[1]
                    how = draw(st.integers(0, 3))
                    if how == 0:
                        w = base
                    elif how == 1 and len(base) > 1:
                        w = base[:draw(st.integers(1, len(base) - 1))]
                    elif how == 2 and len(base) < 4:
                        w = base + draw(st.text(alphabet=alpha_valid, min_size=1, max_size=4 - len(base)))
                    else:
                        w = draw(word_st)
                    if op == "remove" and is_invalid(w):
                        op = "add"
                    seq.append((op, w))
                else:
                    op, w = draw(op_st)
                    if op == "remove" and is_invalid(w):
                        op = "add"
                    seq.append((op, w))
            return seq
        return s()

    @hypothesis.seed(seed)
    @settings(max_examples=n_examples, deadline=None, database=None, derandomize=False,
              report_multiple_bugs=False, suppress_health_check=list(HealthCheck),
              phases=[hypothesis.Phase.generate])
    @hypothesis.given(seq_strategy())
    def prop(seq):
        universe = sorted({w for _, w in seq} | {w[:i] for _, w in seq for i in range(1, len(w))})
        pathobjs = {w: mk_path(cs, w) for w in universe}
        d, nontriv = run_sequence(cs, seq, universe, pathobjs)
        col.evaluations += 1
        case = {"kind": "sequence", "universe": "free", "ops": [list(o) for o in seq]}
        if nontriv:
            col.nontriv(case["ops"])
            col.label("sampled:nontrivial")
        if any(op == "remove" for op, _ in seq):
            col.label("sampled:has_remove")
        if any(is_invalid(w) for _, w in seq):
            col.label("sampled:has_invalid_site")
        if len(col.samples) < 2:
            col.sample(case)
        if d:
            col.discrepancy(d[0], d[1], case)

    prop()
    return col


def check_case(case):
    cs = _lian()
    seq = [tuple(o) for o in case["ops"]]
    if case.get("universe") in UNIVERSES:
        universe, _ = universe_ops(case["universe"])
    else:
        universe = sorted({w for _, w in seq} | {w[:i] for _, w in seq for i in range(1, len(w))})
    pathobjs = {w: mk_path(cs, w) for w in universe}
    d, nontriv = run_sequence(cs, seq, universe, pathobjs)
    return d


def shrink_case(case, sig):
    def fails(ops):
        d = check_case({"universe": case.get("universe"), "ops": ops})
        return d is not None and tuple(d[0]) == tuple(sig)
    ops = common.ddmin(case["ops"], fails)
    return {"kind": "sequence", "universe": case.get("universe"), "ops": ops}


def replay(path):
    rec = common.load_replay(path)
    d = check_case(rec["case"])
    if d:
        kind, _ = common.classify(ID, tuple(d[0]))
        if kind == "known" and not os.environ.get("VERIF_CONFIRM"):
            print("KNOWN-FINDING: property=%s %s" % (ID, d[1]))
            return 0
        print("VIOLATION property=%s replay=%s" % (ID, path))
        print("  signature=%s %s" % (list(d[0]), d[1]))
        return 1
    print("%s replay %s: holds" % (ID, path))
    return 0


def main(tier, seed, t0):
    col = Collector()
    # 1. committed regression inputs
    for path in common.replay_files(ID):
        rec = common.load_replay(path)
        d = check_case(rec["case"])
        col.evaluations += 1
        col.label("replayed")
        if d:
            col.discrepancy(d[0], d[1], rec["case"])
    # 2. exhaustive enumerations
    if tier == "quick":
        plan = [("U2x3", 3), ("U2x2", 4), ("U3x2", 3)]
        machine = (1500, 30)
    else:
        plan = [("U2x3", 4), ("U2x2", 6), ("U3x2", 4)]
        machine = (40000, 40)
    args = []
    for name, length in plan:
        _, ops = universe_ops(name)
        firsts = list(range(len(ops)))
        per = max(1, len(firsts) // (common.NCPU * 2))
        for i in range(0, len(firsts), per):
            args.append((name, length, firsts[i:i + per]))
    col.merge(common.run_shards(enum_shard, args))
    # 3. sampled deeper histories
    nsh = common.NCPU
    margs = [(common.shard_seed(seed, i), machine[0] // nsh + 1, machine[1]) for i in range(nsh)]
    col.merge(common.run_shards(machine_shard, margs))
    # shrink new violations (sequence ddmin preserving the signature)
    for sig, b in list(col.buckets.items()):
        kind, _ = common.classify(ID, sig)
        if kind == "new":
            b["examples"] = [shrink_case(b["examples"][0], sig)]
    universes = {}
    for name, length in plan:
        universe, ops = universe_ops(name)
        universes[name] = {"paths": universe, "ops": len(ops), "sequence_length": length,
                           "sequences": len(ops) ** length}
    return common.finish(ID, tier, seed, col, t0, RULE, ASSUMPTIONS, exhaustive=True,
                         extra_coverage={"universes": universes,
                                         "explanation": "exhaustive within each listed universe and length; the sampled machine is not exhaustive"})
