"""C11 — every reported taint flow is justified by rules and by a data dependence.

Soundness of what `lian run` reports: the C10 projects (harness/taint_gen.py) plus negative constructions and
perturbed rule sets; every reported flow is checked against a reference rule matcher and a deliberately coarse
dependence graph built from the python AST; empty rule sets and rule-set extension are checked as relations
between runs.
"""
import ast
import json
import os

from harness import common
from harness.common import Collector
from harness import taint_gen as tg

def _cleaning(fn):
    """shard functions run in pool workers that are terminated, not exited: remove the scratch directory here"""
    import functools

    @functools.wraps(fn)
    def wrapper(arg):
        try:
            return fn(arg)
        finally:
            from harness import lianrun
            lianrun.cleanup_scratch()
    return wrapper


ID = "C11"

RULE = ("the C10 chain projects (1-3 files, <= 3 source and <= 3 sink sites, all rule kinds) with half of the chains ending "
        "in a negative construction (value in another argument position than the rule names, stored in another field / "
        "object / variable, overwritten, passed through a resolved callee that returns a constant, dropped; decoy "
        "statements whose name collides with a rule of another kind) and with perturbed rule sets: each rule may get a "
        "matching or non-matching unit_name / line_num / lang, a second rule with another target restricted to another "
        "line, and a subset R of the full set R+dR (possibly with no source rule or no sink rule at all). Oracle per run: "
        "(1) source and sink statement of every reported flow match a configured rule under a reference matcher written "
        "from the rule fields; (2) the operand the matching sink rules designate is reachable from what the source "
        "statement defines in a flow-insensitive, context-insensitive, field-name-based dependence graph with separate "
        "'is the value' / 'holds the value' modes; (3) no source rule or no sink rule => no flow; (5) flows(R) is a subset "
        "of flows(R+dR). Non-trivial = the full rule set reports >= 1 flow; distinct by hash of (files, both rule sets).")

ASSUMPTIONS = [
    "reference matcher: call_stmt <-> call of a plain name, object_call(_stmt) <-> attribute call whose text "
    "receiver.attr (self written %this) equals the rule name, parameter_decl <-> parameter of the def on that line, "
    "field_read / field_write <-> attribute load / store with that text, record_write <-> dict-literal entry with that "
    "key; unit_name = file base name, line_num = 1-based line, lang = language group the rule is listed under",
    "\\%target on a sink is read as 'any operand of the statement' (what the matcher's wildcard branch does); \\%argN as "
    "the N-th positional argument; \\%receiver as the receiver of the call",
    "the dependence graph is an over-approximation by construction (names global to the project, all same-named "
    "functions / fields merged, containers index-insensitive, unresolved calls return everything they are given, a "
    "field-read source taints every read of that field name); it is self-checked on every case: each flow that really "
    "happens under CPython must be justified by it, otherwise the run ends with a harness error",
    "unit_path restrictions are not generated (the matcher code for them is commented out in two of the six matchers)",
    "settings as in C10 (entry %unit_init of every file, shipped python propagation rules); the shipped *_from_code.yaml "
    "files are used only by the from-code sweep of the thorough tier",
]


# ---------------------------------------------------------------------------------------------
# rule-set perturbation

def all_sites(facts):
    keys = set()
    for d in (facts.calls, facts.attr_loads, facts.attr_stores, facts.defs, facts.dicts):
        keys.update(d.keys())
    return sorted(keys)


def rule_sites(facts, rule, is_source):
    out = []
    m = tg.source_match if is_source else tg.sink_match
    for site in all_sites(facts):
        if m(facts, rule, site, ignore=("unit_name", "line_num", "lang")) is not None:
            out.append(site)
    return out


OTHER_TARGET = {"arg0": "arg1", "arg1": "arg0", "arg2": "arg0", "receiver": "arg0", "target": "arg0"}


def perturb(case, choices):
    """-> (rules_full, rules_small or None, labels).  Deterministic in (case, choices)."""
    facts = tg.Facts(case["files"])
    it = iter(list(choices) * 8)
    labels = []
    same_key = []
    full = {"source": [], "sink": []}
    for kind in ("source", "sink"):
        for r in case["rules"][kind]:
            r = dict(r)
            mode = next(it) % 16
            sites = rule_sites(facts, r, kind == "source")
            site = sites[next(it) % len(sites)] if sites else None
            if mode == 6 and site:
                r["unit_name"] = site[0]
                labels.append("restrict:unit_name:match")
            elif mode == 7:
                r["unit_name"] = "zz_other.py"
                labels.append("restrict:unit_name:other")
            elif mode == 8 and site:
                r["line_num"] = site[1]
                labels.append("restrict:line_num:match")
            elif mode == 9:
                r["line_num"] = (site[1] if site else 1) + 57
                labels.append("restrict:line_num:other")
            elif mode == 10:
                r["lang"] = "java"
                labels.append("restrict:lang:other")
            elif mode == 15 and (tg.OP_KIND_SRC if kind == "source" else tg.OP_KIND_SNK).get(r.get("operation")) == "method":
                # the rule now describes another kind of statement (a field access of that name), not the call
                r["operation"] = "field_read" if kind == "source" else "field_write"
                labels.append("rule:other-operation")
            full[kind].append(r)
            if mode in (11, 12) and kind == "sink" and r.get("target") and r.get("name"):
                # a second rule for the same sink with another designated operand, restricted to a line where the
                # sink does not stand: it must not change what is reported
                t0 = tg.rule_targets(r)[0]
                r2 = {k: v for k, v in r.items() if k not in ("line_num", "unit_name")}
                r2["target"] = [tg.ARG[OTHER_TARGET.get(t0, "arg0")]]
                if mode == 11:
                    r2["line_num"] = (site[1] if site else 1) + 91
                    labels.append("second-rule:other-line")
                else:
                    r2["unit_name"] = "zz_other.py"
                    labels.append("second-rule:other-unit")
                full[kind].append(r2)
            if mode in (4, 5) and kind == "sink" and r.get("target") and r.get("name") \
                    and tg.OP_KIND_SNK.get(r.get("operation")) in ("call", "method"):
                # a second rule that agrees with this one in everything but the designated operand: both apply, the
                # statement is a sink for either operand
                t0 = tg.rule_targets(r)[0]
                r2 = dict(r)
                r2["target"] = [tg.ARG[OTHER_TARGET.get(t0, "arg0")]]
                labels.append("second-rule:same-key-other-target")
                full[kind].append(r2)
                same_key.append(r2)
            if mode in (13, 14) and kind == "sink" and r.get("target") and r.get("name") \
                    and tg.OP_KIND_SNK.get(r.get("operation")) in ("call", "method"):
                # a rule of ANOTHER operation with the same name and another designated operand: it describes a
                # different kind of statement and must not change what is reported for this one
                t0 = tg.rule_targets(r)[0]
                r2 = dict(r)
                r2["operation"] = "field_write" if tg.OP_KIND_SNK[r["operation"]] == "call" else "call_stmt"
                r2["target"] = [tg.ARG[OTHER_TARGET.get(t0, "arg0")]]
                labels.append("second-rule:other-operation")
                full[kind].append(r2)
    sel = next(it) % 10
    small = None
    if same_key:
        # the most telling subset: everything except the added same-key rules (adding them must not remove a flow)
        small = {"source": list(full["source"]), "sink": [r for r in full["sink"] if not any(r is x for x in same_key)]}
        labels.append("small:without-same-key-rules")
    elif sel == 0:
        small = {"source": [], "sink": list(full["sink"])}
        labels.append("small:no-source-rule")
    elif sel == 1:
        small = {"source": list(full["source"]), "sink": []}
        labels.append("small:no-sink-rule")
    elif sel <= 6:
        small = {"source": [r for r in full["source"] if next(it) % 3], "sink": [r for r in full["sink"] if next(it) % 3]}
        if small == full:
            small = None
        else:
            labels.append("small:subset")
    return full, small, labels


# ---------------------------------------------------------------------------------------------
# one case

def site_meta(case):
    sid = {(s["file"], s["line"]): s for s in case.get("sources", [])}
    tid = {(t["file"], t["line"]): t for t in case.get("sinks", [])}
    return sid, tid


class Graphs(object):
    """the reference dependence graph and its named weakenings (built on demand)"""

    def __init__(self, facts):
        self.facts = facts
        self.cache = {}

    def get(self, relax=()):
        key = tuple(sorted(relax))
        if key not in self.cache:
            self.cache[key] = tg.DepGraph(self.facts, relax=key)
        return self.cache[key]


LADDER = [(("call",), "call-overtaint"), (("object",), "object-level-field-taint"),
          (("call", "object"), "call-overtaint+object-level-field-taint")]


def rule_words(rule):
    """operand names (vocabulary of taint_gen.lian_operand) a sink rule designates"""
    words = set()
    kind = tg.OP_KIND_SNK.get(rule.get("operation"))
    ts = tg.rule_targets(rule)
    if kind == "recordw" or not ts:
        words.add("*")
    for t in ts:
        if t == "target" or not t:
            words.add("*")
        elif kind == "fieldw":
            words.add("value" if t == "arg1" else "receiver")
        else:
            words.add(t)
    return words


def designated_words(facts, rules, tsite, ignore=None):
    """words designated by the sink rules that apply at tsite; with `ignore`: by the rules that do NOT apply as they
    are written but would if the given fields were ignored"""
    words = set()
    for r in rules["sink"]:
        applies = tg.sink_match(facts, r, tsite) is not None
        if ignore is None:
            if applies:
                words |= rule_words(r)
        elif not applies and tg.sink_match(facts, r, tsite, ignore=ignore) is not None:
            words |= rule_words(r)
    return words


def operand_exprs(facts, tsite, words):
    """the expressions of the sink statement named by operand words"""
    out = []
    for c in facts.calls.get(tsite, []):
        for w in words:
            if w.startswith("arg") and w[3:].isdigit() and int(w[3:]) < len(c.args):
                out.append(c.args[int(w[3:])])
            elif w == "receiver" and isinstance(c.func, ast.Attribute):
                out.append(c.func.value)
            elif w == "callee":
                out.append(c.func)
            elif w == "*":
                out.extend(c.args)
                if isinstance(c.func, ast.Attribute):
                    out.append(c.func.value)
    for a, val in facts.attr_stores.get(tsite, []):
        for w in words:
            if w in ("value", "*"):
                out.append(val)
            if w in ("receiver", "*"):
                out.append(a.value)
    return out


def classify_flow(case, facts, graphs, rules, flow, ops, tainted_ops=None, id_clash=False):
    """-> list of (sig, what) for one reported flow.  tainted_ops: the operands of the sink statement that carried the
    tag inside lian (observed by wrapping the sink check), or None."""
    tg.PREFERRED_RELAX = [f for f in ("lang", "line_num", "unit_name", "operation", "name~")
                          if any(e.get("status") == "open" and len(e.get("signature", [])) == 5 and e["signature"][1] == "rule"
                                 and e["signature"][4] == f for e in common.load_known(ID))]
    graph = graphs.get()
    j = tg.justify(facts, graph, rules, flow)
    out = []
    sop, top = ops.get(flow, ("?", "?"))
    if not j["source_rule"]:
        for fld in (j["source_relax"] or "?").split("+"):
            out.append(((ID, "rule", "source", sop, fld),
                        "reported source statement %s:%d (%s) matches no source rule; the closest rule disagrees in: %s" % (
                            flow[0], flow[1], sop, j["source_relax"])))
    if not j["sink_rule"]:
        for fld in (j["sink_relax"] or "?").split("+"):
            out.append(((ID, "rule", "sink", top, fld),
                        "reported sink statement %s:%d (%s) matches no sink rule; the closest rule disagrees in: %s" % (
                            flow[2], flow[3], top, j["sink_relax"])))
    if not (j["source_rule"] and j["sink_rule"]) or j["dependence"]:
        return out
    ssite, tsite = (flow[0], flow[1]), (flow[2], flow[3])

    def reach_of(g):
        seeds = set()
        for r in rules["source"]:
            how = tg.source_match(facts, r, ssite)
            if how is not None:
                seeds |= g.source_seeds(ssite, how)
        return g.closure(seeds)

    def msg(why, detail=""):
        return ("reported flow %s:%d -> %s:%d: the operand designated by the matching sink rules does not depend on the "
                "source statement even flow-insensitively (%s%s)" % (flow[0], flow[1], flow[2], flow[3], why,
                                                                     ("; " + detail) if detail else ""))
    want = designated_words(facts, rules, tsite)
    tainted = set(tainted_ops or [])
    check_words = want
    # Q1 (position): did lian find the tag on an operand that an applicable rule designates?
    if tainted and "*" not in want and not (tainted & want):
        if tainted & designated_words(facts, rules, tsite, ignore=("unit_name", "line_num", "lang")):
            why = "operand-of-excluded-rule"
        elif tainted & designated_words(facts, rules, tsite, ignore=("operation",)):
            why = "operand-of-other-operation-rule:" + top
        elif case.get("keep_from_code"):
            why = "from-code-rules:other-operand"
        else:
            why = "operand-not-designated"
        out.append(((ID, "dependence", why), msg(why, "lian found the tag on %s, the applicable rules designate %s" % (
            sorted(tainted), sorted(want)))))
        check_words = tainted
    elif tainted:
        check_words = tainted if "*" in want else (tainted & want)
    # Q2 (taint): does the operand that carried the tag depend on the source under the reference reading, and if not,
    # which named weakening of that reading explains it?
    exprs = operand_exprs(facts, tsite, check_words)
    reach = reach_of(graph)
    if exprs and any(graph.operand_states(x) & reach for x in exprs):
        return out
    why = None
    for relax, name in LADDER:
        g = graphs.get(relax)
        r2 = reach_of(g)
        if any(g.operand_states(x) & r2 for x in exprs):
            why = name
            break
    detail = ""
    if why is None:
        sid, tid = site_meta(case)
        s, t = sid.get(ssite), tid.get(tsite)
        detail = "undeclared-site" if (s is None or t is None) else ("cross-chain" if s["chain"] != t["chain"] else t["ending"])
        # one class: no named weakening of the reference reading explains the taint (the construction it was found
        # in only goes into the message)
        why = "unexplained"
        if id_clash:
            # observed inside lian: the tainted operand's symbol id is also the id of a STATE node of the graph
            why = "unexplained:symbol-id-equals-a-state-id"
        if case.get("keep_from_code") and not tainted:
            why = "from-code-rules:other-operand"
    out.append(((ID, "dependence", why), msg(why, detail)))
    return out


def check_case(case):
    """case: files, rules_full, rules_small|None, param_sites, sources, sinks, chains, keep_from_code.
    -> (discrepancies [(sig, what)], info)"""
    files = case["files"]
    facts = tg.Facts(files)
    graphs = Graphs(facts)
    graph = graphs.get()
    out = []
    info = {"flows": {}, "gt": None}
    runs = [("full", case["rules_full"])]
    if case.get("rules_small") is not None:
        runs.append(("small", case["rules_small"]))
    for tag, rules in runs:
        lr = tg.run_lian(files, rules, keep_from_code=bool(case.get("keep_from_code")), trace_sinks=True)
        info["flows"][tag] = lr["flows"]
        ops = {(d[0], d[1], d[3], d[4]): (d[2], d[5]) for d in lr["detail"] if len(d) == 6}
        if lr["exc"]:
            out.append(((ID, "crash") + tuple(lr.get("exc_sig") or ("?", "?")), "lian raised %s" % lr["exc"]))
        if (not rules["source"] or not rules["sink"]) and lr["flows"]:
            which = "source" if not rules["source"] else "sink"
            out.append(((ID, "empty-rules", which), "%d flows reported with an empty %s rule set: %s" % (
                len(lr["flows"]), which, sorted(lr["flows"])[:3])))
            continue
        for flow in sorted(lr["flows"]):
            out.extend(classify_flow(case, facts, graphs, rules, flow, ops, lr.get("operands", {}).get(flow),
                                     flow in lr.get("id_clash", ())))
    if "small" in info["flows"]:
        lost = sorted(info["flows"]["small"] - info["flows"]["full"])
        if lost:
            out.append(((ID, "monotonicity", "flow-lost-when-rules-added"),
                        "flows %s are reported under R but not under R + dR" % lost[:3]))
    # self-check of the oracle: what really happens must be justified by the reference matcher and the graph
    if not case.get("no_ground_truth"):
        gt = tg.ground_truth({"files": files, "rules": case["rules_full"], "param_sites": case.get("param_sites", []),
                              "main": case.get("main", "a.py")})
        info["gt"] = gt
        if not gt["error"] and not gt.get("unsupported"):
            for p in sorted(gt["pairs"]):
                j = tg.justify(facts, graph, case["rules_full"], p)
                if not (j["source_rule"] and j["sink_rule"] and j["dependence"]):
                    info["oracle_error"] = "flow %s happens under CPython but the reference oracle rejects it: %s" % (p, j)
    # dedupe
    seen = set()
    res = []
    for sig, what in out:
        if sig not in seen:
            seen.add(sig)
            res.append((sig, what))
    return res, info


def slim(case):
    keep = ("files", "rules_full", "rules_small", "param_sites", "sources", "sinks", "chains", "main", "keep_from_code",
            "no_ground_truth")
    return {k: case[k] for k in keep if k in case}


# ---------------------------------------------------------------------------------------------
# shards

@_cleaning
def random_shard(arg):
    seed, n_examples, avoid, uniq = arg
    import hypothesis
    from hypothesis import settings, HealthCheck, strategies as st
    col = Collector()
    src_kinds = [k for k in tg.SOURCE_KINDS if ("src:" + k) not in avoid] or ["method"]
    snk_kinds = [k for k in tg.SINK_KINDS if ("snk:" + k) not in avoid] or ["call"]
    profile = {"src_kinds": src_kinds + ["decoy_param", "decoy_call_suffix", "decoy_call_prefix"], "snk_kinds": snk_kinds, "neg": 5,
               "endings": ["drop", "kill", "wrongpos", "wrongpos", "far_arg_receiver", "unrel_field", "unrel_obj", "unrel_var", "const_callee",
                           "decoy_fieldw_prefix", "decoy_method_like_call"], "max_links": 3}

    @hypothesis.seed(seed)
    @settings(max_examples=n_examples, deadline=None, database=None, derandomize=False, report_multiple_bugs=False,
              suppress_health_check=list(HealthCheck), phases=[hypothesis.Phase.generate])
    @hypothesis.given(tg.spec_strategy(profile), st.lists(st.integers(0, 997), min_size=16, max_size=16))
    def prop(spec, choices):
        spec = dict(spec)
        spec["uniq_names"] = bool(uniq) and choices[0] % 2 == 0
        base = tg.render(spec)
        full, small, plabels = perturb(base, choices[1:])
        case = dict(base)
        case["rules_full"], case["rules_small"] = full, small
        case.pop("rules")
        ds, info = check_case(case)
        col.case()
        if info.get("oracle_error"):
            col.error(info["oracle_error"] + " :: " + json.dumps(slim(case))[:1500])
        gt = info.get("gt") or {}
        if gt.get("error"):
            col.discards["ground-truth-self-check-skipped:" + gt["error"].split(":")[0]] += 1
        col.label(*tg.spec_labels(base))
        col.label(*plabels)
        nfl = len(info["flows"].get("full", ()))
        col.label("reported-flows:%d" % min(4, nfl))
        col.extra["reported_flows"] += nfl
        col.extra["lian_runs"] += len(info["flows"])
        if nfl:
            col.nontriv({"f": case["files"], "r": full, "s": small})
            col.label("nontrivial")
        if len(col.samples) < 2 and nfl:
            col.sample({"files": case["files"], "rules_full": full, "rules_small": small,
                        "reported": sorted(info["flows"]["full"])})
        for sig, what in ds:
            col.discrepancy(sig, what, slim(case))

    prop()
    return col


FIXED_CASES = None


@_cleaning
def from_code_shard(arg):
    """thorough tier: shipped *_from_code.yaml kept; a sink whose designated operand is clean, placed on the line
    number of a shipped from-code sink rule of an unrelated project."""
    items = arg
    col = Collector()
    for (line, sym) in items:
        filler = "".join("z%d = %d\n" % (i, i) for i in range(2, line))
        name = "snkobj.push_%s" % sym
        text = "v = srcobj.get()\n" + filler + "%s(5, v)\n" % name
        rules = {"source": [{"operation": "object_call", "name": "srcobj.get"}],
                 "sink": [{"operation": "object_call", "name": name, "target": [tg.ARG["arg0"]]}]}
        case = {"files": {"a.py": text}, "rules_full": rules, "rules_small": None, "param_sites": [],
                "sources": [{"id": 0, "kind": "method", "chain": 0, "at": 0, "file": "a.py", "line": 1}],
                "sinks": [{"id": 0, "kind": "method", "pos": "arg0", "chain": 0, "at": 0, "ending": "from-code-line",
                           "file": "a.py", "line": line}],
                "chains": [{"labels": [], "src": "method", "end": "from-code-line"}], "keep_from_code": True}
        ds, info = check_case(case)
        col.case()
        col.label("from-code-sweep")
        col.extra["from_code_lines_swept"] += 1
        if info.get("oracle_error"):
            col.error(info["oracle_error"])
        for sig, what in ds:
            col.discrepancy(sig, what, slim(case))
    return col


def from_code_items(seed, n):
    import yaml
    path = os.path.join(common.REPO, "default_settings", "sink_from_code.yaml")
    try:
        with open(path) as f:
            data = yaml.safe_load(f) or []
    except Exception:
        return []
    cands = sorted({(int(r["line_num"]), str(r["symbol_name"])) for g in data for r in g.get("rules", [])
                    if str(r.get("symbol_name", "")).isidentifier() and 3 <= int(r.get("line_num") or 0) <= 120})
    if not cands:
        return []
    out = []
    step = max(1, len(cands) // n)
    for i in range(n):
        out.append(cands[(seed * 7 + i * step) % len(cands)])
    return out


# ---------------------------------------------------------------------------------------------
# entry points

def replay_one(col, case):
    ds, info = check_case(case)
    col.case()
    col.label("replayed")
    if info.get("oracle_error"):
        col.error(info["oracle_error"])
    for sig, what in ds:
        col.discrepancy(sig, what, slim(case))


def replay(path):
    rec = common.load_replay(path)
    col = Collector()
    replay_one(col, rec["case"])
    for e in col.errors:
        print("HARNESS-ERROR: property=%s %s" % (ID, e))
    if col.errors:
        return 2
    rc = 0
    for sig, b in sorted(col.buckets.items(), key=lambda kv: str(kv[0])):
        kind, _ = common.classify(ID, tuple(sig))
        if kind == "known" and not os.environ.get("VERIF_CONFIRM"):
            print("KNOWN-FINDING: property=%s %s" % (ID, b["what"]))
            continue
        print("VIOLATION property=%s replay=%s" % (ID, path))
        print("  signature=%s %s" % (list(sig), b["what"]))
        rc = 1
    if not col.buckets:
        print("%s replay %s: holds" % (ID, path))
    return rc


@_cleaning
def replay_shard(paths):
    col = Collector()
    for path in paths:
        rec = common.load_replay(path)
        replay_one(col, rec["case"])
    return col


def calibrated_avoid():
    """rule kinds that cannot report at all on this tree (first spelling of C10's calibration projects); they are
    not generated here either, a chain that can never be reported exercises nothing"""
    failed = set()
    for path in common.replay_files("C10"):
        rec = common.load_replay(path)
        c = rec["case"]
        if "calibration" in c and c["calibration"].startswith(("src:", "snk:")):
            hit = False
            for v in c["variants"][:2]:
                lr = tg.run_lian(v["files"], v["rules"])
                if tuple(v["expect"]) in lr["flows"]:
                    hit = True
                    break
            if not hit:
                failed.add(c["calibration"])
    return failed


@_cleaning
def calib_shard(_):
    col = Collector()
    col.notes.append("failed-kinds:" + json.dumps(sorted(calibrated_avoid())))
    return col


def main(tier, seed, t0):
    col = Collector()
    files = common.replay_files(ID)
    nsh = common.NCPU
    parts = [files[i::nsh] for i in range(nsh) if files[i::nsh]]
    first = common.run_shards(replay_shard, parts) if parts else Collector()
    col.merge(first)
    cal = common.run_shards(calib_shard, [0, 0], procs=2)     # in a worker: the parent never loads lian
    avoid = set()
    for n in cal.notes:
        if n.startswith("failed-kinds:"):
            avoid = set(json.loads(n.split(":", 1)[1]))
    for k in sorted(avoid):
        col.stepovers["rule-kind " + k + " (cannot report, see C10)"] += 1
    total = 500 if tier == "quick" else 12000
    nsh = 16 if tier == "quick" else 64       # fixed: the run must not depend on the number of cores
    per = total // nsh + 1
    args = [(common.shard_seed(seed, i), per, sorted(avoid), True) for i in range(nsh)]
    col.merge(common.run_shards(random_shard, args))
    if tier != "quick":
        items = from_code_items(seed, 16)
        if not items:
            col.notes.append("from-code sweep skipped: no usable rule in default_settings/sink_from_code.yaml")
        else:
            n = min(16, len(items))
            col.merge(common.run_shards(from_code_shard, [items[i::n] for i in range(n)]))
    return common.finish(ID, tier, seed, col, t0, RULE, ASSUMPTIONS,
                         extra_coverage={"rule_kinds_not_generated": sorted(avoid)})
