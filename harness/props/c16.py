"""C16 — table queries always reflect the table's current contents.

Model-based test of `lian.util.data_model.DataModel` (+ `lian.util.gir_block.GIRBlockViewer`): an operation
sequence is ONE Hypothesis value (a JSON-serialisable list), executed by `harness.c16_model.run_case`
against a naive list-of-(label, values) model; after every operation ALL queries are compared with a scan
of the model.  Replays need no Hypothesis.
"""
import os

from harness import common
from harness.common import Collector
from harness import c16_model as M

ID = "C16"

RULE = ("one case = one operation sequence (<= 25 steps quick / 30 thorough) generated as a single Hypothesis value: "
        "a construction (list of dicts with/without columns=list|dict, tuples+columns, dict of lists, DataFrame with "
        "arbitrary unique labels, copy or not) followed by operations drawn from modify_element / modify_row / "
        "modify_column (scalar, list, new column) / append_data_model (DataModel or DataFrame, same or different "
        "columns, 0-3 rows) / remove_rows / rename_column / set_columns / fillna / reset_index (plain, not in place, "
        "move_index_to_column) / slice / clone / DataModel(DataModel) / DataModel(DataFrame with new labels) / "
        "continuing on the sub-table returned by query_index_column_value or slow_query. Two table shapes: 'table' "
        "(2-4 columns of kinds int / str / mixed over tiny alphabets {0,1,2,3}, {x,y,z,''}, duplicates, None, NaN, "
        "absent keys) and 'gir' (operation, stmt_id, parent_stmt_id, name, body, else_body with nested balanced "
        "block_start/block_end markers, mutated by the same operations). After every operation (except after ~1/6 of the "
        "flagged mutations / table replacements, drawn per step, so that the next operation meets dirty caches; the "
        "order 'indexed queries first' / 'row queries first' is drawn per step too) every query is compared "
        "with a scan of the model: len, iteration, access(pos) for every position and just outside, access(list|set), "
        "get_rows, access_column / [] / unique_values_of_column / convert_to_dict_list / access(label, column) per "
        "column, query_index_column_value_indices / _value / _first and Column.bundle_search for every column x every "
        "value present (python scalar, float spelling, numpy scalar as read back) + absent values + None/NaN/'' "
        "(positions exactly the matching ones, sorted, < len), slow_query / slow_query_first / isin by mask, "
        "search_block_start_end_indics / read_block / read_block_with_block_stmts / boundary_of_multi_blocks for every "
        "id, and a GIRBlockViewer built from the table (root, copy, every block view, append_other of disjoint "
        "blocks: len, iteration, [], get_stmt_by_id/pos, contains*, query_operation, query_field, get_block_stmt_ids, "
        "get_all_stmt_ids, read_block visibility, boundary_of_multi_blocks). Tables replaced by slice/clone/sub-table "
        "stay alive and are re-checked for independence. Exact duplicates of an earlier generated sequence are not "
        "executed (counted under discarded). Non-trivial = the sequence contains in-place mutation(s) of a table object "
        "between two full comparisons of that object which change the expected answer of at least one equality query "
        "(query -> mutation -> same query, different answer); distinct by content hash of the sequence.")

ASSUMPTIONS = [
    "missing values (None, NaN, absent key) are one class 'missing'; a missing value or an empty string never matches an "
    "equality query (that is what util.isna implements and callers rely on); 0 is a value, whatever its numeric type",
    "row labels follow pandas: append relabels 0..n-1, remove_rows / slice / indexed sub-tables keep labels, reset_index "
    "relabels; Row.get_index() is the label for access()/iteration and the POSITION for query_index_column_value_first / "
    "slow_query_first (loader.py slices with it)",
    "modify_element addresses a row by an existing LABEL (.loc), modify_row by position (.iloc); only existing rows; "
    "values written into a column are of a type its current pandas dtype accepts (pandas 3 raises TypeError otherwise): "
    "such operations are skipped and counted under discarded",
    "renames never create duplicate column names; indexed columns hold hashable scalars; slice bounds are non-negative",
    "read_block is only asked for ids that occur exactly twice (a block) or are missing: any other id is error_and_quit by design",
    "GIRBlockViewer is a snapshot: it is compared right after construction from the current table, not after later mutations",
    "writes through Row attributes, save/load (C15) and DataModel(DataModel) aliasing of two live handles are not generated",
    "pandas 3 copy-on-write semantics (the installed version): a table obtained by slice/clone/query is independent of its origin",
]

# name of a step-over -> (finding signature it steps over); active iff that signature is an OPEN known finding
STEPOVERS = M.STEPOVER_SIGS


def active_stepovers():
    """A step-over is active iff the finding it steps over is an OPEN known finding (so repairing the defect and
    marking it fixed removes the step-over).  For experiments with a patched tree: VERIF_C16_NO_STEPOVER=name,name|all."""
    off = [x for x in os.environ.get("VERIF_C16_NO_STEPOVER", "").split(",") if x]
    if "all" in off:
        return []
    return sorted(name for name, sig in STEPOVERS.items() if name not in off and common.classify(ID, sig)[0] == "known")


# ---------------------------------------------------------------------------------------------
# generators (the Model is used to keep the generated operations inside the domain)

PLAIN_OPS = ["assign_stmt", "call_stmt", "nop"]
GIR_COLS = ["operation", "stmt_id", "parent_stmt_id", "name", "body", "else_body"]
GIR_KINDS = {"operation": "op", "stmt_id": "id", "parent_stmt_id": "id", "name": "n", "body": "blk", "else_body": "blk"}


def strategies(max_steps):
    from hypothesis import strategies as st

    def pick(draw, seq):
        return seq[draw(st.integers(0, len(seq) - 1))]

    def value(draw, kind, m=None, col=None, missing=3):
        """a value for a column of `kind`; `missing` in 0..10 = tenths of missing values"""
        r = draw(st.integers(0, 9))
        if r < missing:
            return pick(draw, [None, None, M.NAN])
        if m is not None and col in m.cols and r < 7:
            present = [v for v in m.column(col) if v is not None]
            if present:
                return pick(draw, present)
        if kind == "i":
            return draw(st.integers(0, 3))
        if kind == "s":
            return pick(draw, ["x", "y", "z", "x", "y", ""])
        if kind == "o":
            return pick(draw, [1, 2, "x", "y"])
        if kind == "op":
            return pick(draw, PLAIN_OPS)
        if kind == "n":
            return pick(draw, ["f", "g", "v", ""])
        if kind in ("id", "blk"):
            ids = [v for v in (m.column("stmt_id") if m is not None and "stmt_id" in m.cols else []) if v is not None]
            if ids:
                return pick(draw, ids)
            return draw(st.integers(10, 14))
        return draw(st.integers(0, 3))

    def gen_rows(draw, cols, kinds, n, allow_absent):
        rows = []
        for k in range(n):
            r = [value(draw, kinds[c]) for c in cols]
            if allow_absent and k > 0 and draw(st.integers(0, 5)) == 0:
                r[draw(st.integers(0, len(cols) - 1))] = M.ABSENT
            rows.append(r)
        return rows

    def gir_fragment(draw, next_id, max_rows, parent=0):
        """rows of a statement list with nested blocks; -> (rows, next_id)"""
        rows = []

        def stmts(parent, depth, budget):
            nonlocal next_id
            k = draw(st.integers(0 if depth else 1, 3))
            for _ in range(k):
                if budget[0] <= 0:
                    return
                sid = next_id
                next_id += 1
                compound = depth < 3 and budget[0] >= 3 and draw(st.integers(0, 9)) < 4
                name = pick(draw, ["f", "g", "v", None, ""])
                if not compound:
                    rows.append([pick(draw, PLAIN_OPS), sid, parent, name, None, None])
                    budget[0] -= 1
                    continue
                op = pick(draw, ["if_stmt", "while_stmt", "method_decl"])
                row = [op, sid, parent, name, None, None]
                rows.append(row)
                budget[0] -= 1
                for slot in (4, 5):
                    if slot == 5 and (op != "if_stmt" or draw(st.integers(0, 1)) == 0 or budget[0] < 2):
                        continue
                    bid = next_id
                    next_id += 1
                    row[slot] = bid
                    rows.append(["block_start", bid, sid, None, None, None])
                    budget[0] -= 2
                    stmts(sid, depth + 1, budget)
                    rows.append(["block_end", bid, sid, None, None, None])

        stmts(parent, 0, [max_rows])
        return rows, next_id

    def gen_op(draw, m, kind, state):
        n = m.n()
        cols = list(m.cols)
        kinds = m.kinds
        weights = [("modify_element", 18), ("modify_row", 7), ("modify_column", 8), ("append", 10), ("remove_rows", 14),
                   ("rename", 5), ("slice", 8), ("reset_index", 7), ("clone", 5), ("rewrap", 3), ("reframe", 3),
                   ("query_take", 5), ("slow_take", 2), ("fillna", 3), ("set_columns", 2)]
        names = [w[0] for w in weights for _ in range(w[1])]
        for _ in range(8):
            name = pick(draw, names)
            if name in ("modify_element", "modify_row", "query_take", "slow_take") and n == 0:
                continue
            if not cols and name not in ("append", "clone", "rewrap", "reset_index"):
                continue
            if name == "append" and n > 12:
                name = "remove_rows"
            break
        else:
            name = "clone"
        if name == "modify_element":
            pos = draw(st.integers(0, n - 1))
            c = pick(draw, cols)
            k = kinds.get(c, "i")
            if kind == "gir" and c in ("stmt_id", "operation", "parent_stmt_id"):
                if c == "operation" and m.rows[pos][1][m.ci(c)] in ("block_start", "block_end") and draw(st.integers(0, 3)):
                    c = "name" if "name" in cols else c
                    k = kinds.get(c, "n")
                v = value(draw, k, m, c, missing=0)
            else:
                v = value(draw, k, m, c, missing=2)
            return ["modify_element", pos, c, v]
        if name == "modify_row":
            pos = draw(st.integers(0, n - 1))
            if kind == "gir":
                # a plain statement replaces a plain statement (fresh id)
                vals = list(m.rows[pos][1])
                d = dict(zip(cols, vals))
                if d.get("operation") in ("block_start", "block_end") and draw(st.integers(0, 4)):
                    pos = draw(st.integers(0, n - 1))
                    d = dict(zip(cols, m.rows[pos][1]))
                state["next_id"] += 1
                new = {"operation": pick(draw, PLAIN_OPS), "stmt_id": state["next_id"], "parent_stmt_id": d.get("parent_stmt_id", 0),
                       "name": pick(draw, ["f", "g", None])}
                return ["modify_row", pos, [new.get(c, None if kinds.get(c) in ("blk", "n", None) else d.get(c)) for c in cols]]
            return ["modify_row", pos, [value(draw, kinds.get(c, "i"), m, c, missing=2) for c in cols]]
        if name == "modify_column":
            if kind == "gir":
                c = pick(draw, [c for c in cols if c not in ("stmt_id", "operation")] or cols)
            else:
                c = pick(draw, cols)
            k = kinds.get(c, "i")
            if len(cols) < 6 and draw(st.integers(0, 4)) == 0:
                c = pick(draw, [x for x in ["e", "f", "g", "unit_id"] if x not in cols] or ["h"])
                k = pick(draw, ["i", "s", "o"])
            elif kind != "gir" and draw(st.integers(0, 5)) == 0:
                k = pick(draw, ["i", "s", "o"])
            if draw(st.integers(0, 1)):
                return ["modify_column", c, [value(draw, k, missing=2) for _ in range(n)], True, k]
            return ["modify_column", c, value(draw, k, missing=3), False, k]
        if name == "append":
            if kind == "gir":
                rows, state["next_id"] = gir_fragment(draw, state["next_id"] + 1, 6)
                c2 = list(GIR_COLS)
                k2 = dict(GIR_KINDS)
                if draw(st.integers(0, 3)) == 0:
                    drop = pick(draw, ["name", "else_body"])
                    idx = c2.index(drop)
                    c2.remove(drop)
                    rows = [r[:idx] + r[idx + 1:] for r in rows]
                return ["append", c2, rows, pick(draw, ["dm", "df"]), {c: k2[c] for c in c2}]
            c2 = list(cols)
            k2 = {c: kinds.get(c, "i") for c in c2}
            r = draw(st.integers(0, 9))
            if r == 0 and len(c2) > 1:
                c2.remove(pick(draw, c2))
            elif r == 1:
                extra = pick(draw, [x for x in ["p", "q"] if x not in c2] or ["r"])
                if extra not in c2:
                    c2.append(extra)
                    k2[extra] = pick(draw, ["i", "s"])
            elif r == 2 and len(c2) > 1:
                c2 = c2[1:] + c2[:1]
            if not c2:
                c2 = ["a"]
                k2["a"] = "i"
            k = draw(st.integers(0, 3))
            rows = [[value(draw, k2.get(c, "i"), m, c) for c in c2] for _ in range(k)]
            return ["append", c2, rows, pick(draw, ["dm", "df"]), {c: k2.get(c, "i") for c in c2}]
        if name == "remove_rows":
            c = pick(draw, cols)
            return ["remove_rows", c, value(draw, kinds.get(c, "i"), m, c, missing=1)]
        if name == "rename":
            if draw(st.integers(0, 6)) == 0:
                return ["rename", {"no_such_column": "other"}]
            c = pick(draw, cols)
            new = c + "2" if len(c) < 12 else c[:1]
            if new in cols:
                new = c + "3"
            shape = draw(st.integers(0, 5))
            same_kind = [x for x in cols if x != c and kinds.get(x, "i") == kinds.get(c, "i")]
            if shape >= 3 and same_kind:
                # one call that renames several columns at once; pandas applies the mapping simultaneously, so a
                # new name may be an old name of the same call (swap, shift) without creating a duplicate.  The
                # columns exchanged hold the same kind of value (the GIR viewers need numeric stmt_id columns)
                d = pick(draw, same_kind)
                if shape == 3:
                    return ["rename", {c: d, d: c}]
                if shape == 4:
                    return ["rename", {c: d, d: new}]
                return ["rename", {d: new, c: d}]
            return ["rename", {c: new}]
        if name == "set_columns":
            new = [c.upper() if c.upper() != c else c.lower() for c in cols]
            if len(set(new)) != len(new) or draw(st.integers(0, 1)):
                new = ["k%d" % i for i in range(len(cols))]
            return ["set_columns", new]
        if name == "fillna":
            cs = [pick(draw, cols)]
            if len(cols) > 1 and draw(st.integers(0, 1)):
                c2 = pick(draw, cols)
                if c2 not in cs:
                    cs.append(c2)
            return ["fillna", {c: value(draw, kinds.get(c, "i"), m, c, missing=0) for c in cs}]
        if name == "reset_index":
            move = 1 if (draw(st.integers(0, 5)) == 0 and "index" not in cols and "level_0" not in cols) else 0
            return ["reset_index", move, 0 if draw(st.integers(0, 4)) == 0 else 1]
        if name == "slice":
            if kind == "gir" and m.is_gir() and draw(st.integers(0, 1)):
                # the way loader.py cuts a method out of a unit: from a statement to the end of its last block
                ids = [v for v in m.column("stmt_id") if v is not None]
                if ids:
                    pos = m.positions("stmt_id", pick(draw, ids))
                    if pos:
                        s = pos[0] - draw(st.integers(0, 1))
                        return ["slice", max(0, s), pos[-1] + draw(st.integers(0, 1)) + (1 if len(pos) > 1 else 3)]
            if n >= 2 and draw(st.integers(0, 3)):
                s = pick(draw, list(range(1, n)) + [0])
                e = pick(draw, list(range(s + 1, n + 1)) + [n + 2])
                return ["slice", s, e]
            s = draw(st.integers(0, n + 1))
            e = draw(st.integers(0, n + 2))
            if s > e and draw(st.integers(0, 3)):
                s, e = e, s
            return ["slice", s, e]
        if name == "reframe":
            labels = draw(st.lists(st.integers(0, 3 * n + 5), min_size=n, max_size=n, unique=True))
            return ["reframe", labels, draw(st.integers(0, 1))]
        if name == "query_take":
            c = pick(draw, cols)
            return ["query_take", c, value(draw, kinds.get(c, "i"), m, c, missing=0)]
        if name == "slow_take":
            c = pick(draw, cols)
            return ["slow_take", c, value(draw, kinds.get(c, "i"), m, c, missing=0), draw(st.integers(0, 1))]
        return [name]

    @st.composite
    def case(draw, kind):
        state = {"next_id": 10}
        if kind == "gir":
            rows, state["next_id"] = gir_fragment(draw, 10, draw(st.integers(3, 14)))
            cols, kinds = list(GIR_COLS), dict(GIR_KINDS)
            r = draw(st.integers(0, 9))
            if r < 5:
                first = ["new_rows", cols, rows, pick(draw, ["dicts", "dicts+cols", "coldict", "tuples+cols"]), kinds]
                m = M.Model.from_rows(cols, rows, kinds)
            else:
                n = len(rows)
                if r < 8:
                    base = draw(st.integers(0, 40))
                    labels = list(range(base, base + n))
                else:
                    labels = draw(st.lists(st.integers(0, 3 * n + 5), min_size=n, max_size=n, unique=True))
                first = ["new_df", cols, rows, labels, draw(st.integers(0, 1)), kinds]
                m = M.Model.from_rows(cols, rows, kinds, labels=labels)
        else:
            ncols = draw(st.integers(2, 4))
            cols = ["a", "b", "c", "d"][:ncols]
            if draw(st.integers(0, 7)) == 0:
                cols[0] = "unit_id"
            kinds = {}
            for i, c in enumerate(cols):
                kinds[c] = "i" if i == 0 and draw(st.integers(0, 3)) else pick(draw, ["i", "i", "s", "s", "o"])
            n = pick(draw, [4, 2, 3, 5, 1, 6, 0, 7, 3])     # (Hypothesis favours the ends of a range: keep 0 off them)
            form = pick(draw, ["dicts", "dicts", "dicts+cols", "dicts+dictcols", "tuples+cols", "coldict", "df", "df"])
            if n == 0 and form == "dicts":
                form = "dicts+cols"
            rows = gen_rows(draw, cols, kinds, n, allow_absent=form.startswith("dicts"))
            if form == "df":
                if draw(st.integers(0, 2)) == 0:
                    labels = list(range(n))
                else:
                    labels = draw(st.lists(st.integers(0, 3 * n + 5), min_size=n, max_size=n, unique=True))
                first = ["new_df", cols, rows, labels, draw(st.integers(0, 1)), kinds]
                m = M.Model.from_rows(cols, rows, kinds, labels=labels)
            else:
                first = ["new_rows", cols, rows, form, kinds]
                m = M.Model.from_rows(cols, rows, kinds)
        ops = [first]
        nsteps = draw(st.integers(1, max_steps))
        for _ in range(nsteps):
            op = gen_op(draw, m, kind, state)
            try:
                m, _ = M.model_apply(m, op)
            except Exception:
                continue
            ops.append(op)
        # per step: I = indexed queries first, R = row queries first, N = no comparison after this step
        orders = "".join(pick(draw, "IIIRRN") for _ in ops)
        return {"kind": kind, "ops": ops, "orders": orders}

    return case


# ---------------------------------------------------------------------------------------------
# running

def record(col, case, res, sampled=True):
    col.case()
    col.extra["steps"] += res["steps"]
    for k, v in res["info"].items():
        if k.startswith("discard:"):
            col.discards[k[8:]] += v
        else:
            col.extra[k] += v
    for k, v in res["stepovers"].items():
        if v:
            col.stepovers["/".join(STEPOVERS[k])] += v
    if res["nontrivial"]:
        col.nontriv(case["ops"])
        col.label("%s:nontrivial" % case["kind"])
    col.label("kind:" + case["kind"])
    for l in sorted(res["labels"]):
        col.label(l)
    if res.get("error"):
        col.error(res["error"][-3000:])
    if res["found"]:
        sig, what = res["found"]
        col.discrepancy(sig, what, case)


def shard(arg):
    seed, n_examples, max_steps, kind, stepover = arg
    import hypothesis
    from hypothesis import settings, HealthCheck
    E = M.env()
    col = Collector()
    seen = set()
    case_st = strategies(max_steps)(kind)

    @hypothesis.seed(seed)
    @settings(max_examples=n_examples, deadline=None, database=None, derandomize=False,
              report_multiple_bugs=False, suppress_health_check=list(HealthCheck),
              phases=[hypothesis.Phase.generate])
    @hypothesis.given(case_st)
    def prop(case):
        h = common.jhash(case)
        if h in seen:
            # Hypothesis' generate phase re-draws a share of earlier values unchanged: not executed twice
            col.discards["duplicate-of-an-earlier-case"] += 1
            return
        seen.add(h)
        case = dict(case)
        case["stepover"] = list(stepover)
        res = M.run_case(case, E)
        record(col, case, res)
        # class histogram from the generated sequence itself
        ops = case["ops"]
        first = ops[0]
        rows = first[2]
        flat = [v for r in rows for v in r]
        if any(v is None or v in (M.NAN, M.ABSENT) for v in flat):
            col.label("initial:has-missing")
        if any(len([r[i] for r in rows if r[i] is not None]) != len({repr(r[i]) for r in rows if r[i] is not None}) for i in range(len(first[1]))):
            col.label("initial:has-duplicates")
        if not rows:
            col.label("initial:empty")
        if first[0] == "new_df":
            col.label("initial:from-dataframe")
        if len(col.samples) < 2:
            col.sample(case)

    prop()
    return col


def check_case(case):
    res = M.run_case(case, M.env())
    return res


def _fails_with(case, sig):
    f = check_case(case)["found"]
    return f is not None and tuple(f[0]) == tuple(sig)


def shrink_case(case, sig):
    """ddmin over the operations after the construction, preserving the signature.  The per-step query order
    string is positional, so the case is first normalised to one uniform order (if it still fails that way)."""
    base = None
    for uniform in ("I", "R"):
        c = dict(case, orders=uniform * len(case["ops"]))
        if _fails_with(c, sig):
            base = c
            break
    if base is None:
        return case
    head = base["ops"][0]
    u = base["orders"][0]

    def fails(tail):
        return _fails_with(dict(base, ops=[head] + list(tail), orders=u * (len(tail) + 1)), sig)

    tail = base["ops"][1:]
    if tail and fails([]):
        tail = []
    elif len(tail) >= 2:
        tail = common.ddmin(tail, fails, max_tests=150)
    out = dict(base, ops=[head] + list(tail), orders=u * (len(tail) + 1))
    return out if _fails_with(out, sig) else base


def replay(path):
    rec = common.load_replay(path)
    res = check_case(rec["case"])
    d = res["found"]
    if res.get("error"):
        print("HARNESS-ERROR: property=%s %s" % (ID, res["error"]))
        return 2
    if d:
        kind, _ = common.classify(ID, tuple(d[0]))
        if kind == "known" and not os.environ.get("VERIF_CONFIRM"):
            print("KNOWN-FINDING: property=%s %s" % (ID, d[1]))
            return 0
        print("VIOLATION property=%s replay=%s" % (ID, path))
        print("  signature=%s %s" % (list(d[0]), d[1]))
        return 1
    print("%s replay %s: holds" % (ID, path))
    return 0


def main(tier, seed, t0):
    col = Collector()
    # 1. committed regression inputs (run exactly as stored: their own step-over list, usually none)
    for path in common.replay_files(ID):
        rec = common.load_replay(path)
        try:
            res = check_case(rec["case"])
        except Exception as e:
            col.error("replay %s crashed the harness: %r" % (path, e))
            continue
        col.label("replayed")
        record(col, rec["case"], res)
    # 2. generated sequences
    stepover = active_stepovers()
    # (kind, sequences, max steps, sequences per shard): the shard layout is fixed (independent of the number of
    # cores), gir shards are smaller because a gir step costs ~3x a table step
    if tier == "quick":
        plan = [("table", 1300, 25, 50), ("gir", 480, 20, 20)]
    else:
        plan = [("table", 52000, 30, 500), ("gir", 19200, 25, 200)]
    args = []
    k = 0
    for kind, total, steps, per in plan:
        for _ in range((total + per - 1) // per):
            args.append((common.shard_seed(seed, k), per, steps, kind, stepover))
            k += 1
    # interleave so that the expensive shards do not all run last
    args.sort(key=lambda a: (a[0] % 7, a[0]))
    col.merge(common.run_shards(shard, args))
    col.notes.append("step-overs active in generated sequences: %s" % (stepover or "none"))
    # 3. shrink new violations (sequence ddmin preserving the signature)
    for sig, b in list(col.buckets.items()):
        kind, _ = common.classify(ID, sig)
        if kind == "new":
            try:
                b["examples"] = [shrink_case(b["examples"][0], sig)]
            except Exception as e:
                col.notes.append("shrinking %s failed: %r" % (list(sig), e))
    return common.finish(ID, tier, seed, col, t0, RULE, ASSUMPTIONS)
