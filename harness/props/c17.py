"""C17 — event handlers run in registration order under the documented blocking rules.

Exhaustive enumeration of handler registrations against a model written from docs 5-1 and
event_return.py, plus a recorder over the default registration table (synthetic notify for every
event kind x language, and real lowering runs for the seven frontends).
"""
import itertools
import os
import types

from harness import common
from harness.common import Collector

ID = "C17"

RULE = ("registrations of 0..4 handlers for one event kind, each with a language set (list/str/set spellings), a "
        "return value in {None,0,1,2,3,4,8} (a zero-returning handler in two variants: leaves out_data alone / writes "
        "it) and a payload-appending body; event language in {python, java, go}; event kinds = the three registered "
        "kinds without default handlers, plus one unregistered kind; in the 'shared' spaces (and half of the sampled "
        "cases) registrations with the same return behaviour register the same function object again (each registration "
        "still counts: it runs once per matching registration, at its own position). Enumerated exhaustively per space (see "
        "coverage.spaces). Non-trivial = at least two handlers match the event language and at least one of the "
        "matching handlers returns a blocking, zero or None value; cases are distinct by construction.")

ASSUMPTIONS = [
    "model written from docs/en/05.inconsistency/5-1.plugin.md and the helper predicates of event_return.py: a handler "
    "is 'successful' iff is_event_successfully_processed(return) (any return other than UNPROCESSED=0, None included) "
    "and contributes the flags SUCCESS (if non-zero), STOP_OTHER_EVENT_HANDLERS, STOP_REQUESTERS, INTERRUPTION_CALL it carries; None carries no flag",
    "handlers are registered through EventManager.register only (the public API); a fresh EventManager is built per case",
]

EVENT_LANGS = ["python", "java", "go"]
# (label, value given to register, normalised set)
LANG_BASIC = [("P", ["python"]), ("J", ["javascript"]), ("A", ["%"]), ("PJ", ["python", "java"])]
LANG_FORMS = LANG_BASIC + [("Ps", "python"), ("Js", "javascript"), ("As", "%"), ("PJset", {"python", "java"})]
RETURNS = [None, 0, "0w", 1, 2, 3, 4, 8]


def _lian():
    import builtins
    if not hasattr(builtins, "profile"):
        builtins.profile = lambda f: f
    from lian.events.event_manager import EventManager
    from lian.events.handler_template import EventData
    from lian.config.constants import EVENT_KIND
    from lian.args_parser import ArgsParser
    return EventManager, EventData, EVENT_KIND, ArgsParser


def lang_set(v):
    if isinstance(v, str):
        return {v}
    return set(v)


def fid(handlers, i, share):
    """identity of the callable of registration i: with `share`, registrations with the same return behaviour are the SAME
    function object registered again (a plugin loaded twice, one handler registered per language); it is named by the
    first registration that uses it"""
    if not share:
        return i
    return next(j for j in range(i + 1) if handlers[j][1] == handlers[i][1])


def model(handlers, event_lang, known_kind, share=False):
    """handlers: list of (langs value, ret).  -> (ran: [(callable id, payload seen)], result flags, final out payload)"""
    payload = []
    out = payload
    ran = []
    result = 0
    if not known_kind:
        return ran, 0, payload
    for i, (langs, ret) in enumerate(handlers):
        ls = lang_set(langs)
        if not (event_lang in ls or "%" in ls):
            continue
        ran.append((fid(handlers, i, share), list(payload)))
        writes = ret == "0w" or (ret not in (None, 0))
        r = 0 if ret == "0w" else ret
        if writes:
            out = payload + [fid(handlers, i, share)]
        if r is not None:
            if r != 0:
                result |= 1
            result |= r & (2 | 4 | 8)
        if result & 2:
            break
        if r is None or r != 0:
            payload = out
    return ran, result, out


class Env:
    def __init__(self):
        EventManager, EventData, EVENT_KIND, ArgsParser = _lian()
        self.EventManager = EventManager
        self.EventData = EventData
        self.K = EVENT_KIND
        self.options = ArgsParser().obtain_default_options()
        self.options.debug = False
        self.known_kinds = [EVENT_KIND.GIR_DATA_MODEL_GENERATED, EVENT_KIND.P2STATE_BUILTIN_FUNCTION_BEFORE,
                            EVENT_KIND.P2STATE_EXTERN_CALLEE]
        self.unknown_kind = EVENT_KIND.ENTRY_POINT_ANALYSIS_BEFORE

    def run_case(self, handlers, event_lang, kind, share=False):
        em = self.EventManager(self.options)
        ran = []
        made = {}

        def mk(i, ret):
            writes = ret == "0w" or (ret not in (None, 0))
            r = 0 if ret == "0w" else ret

            def h(data):
                ran.append((i, list(data.in_data)))
                if writes:
                    data.out_data = list(data.in_data) + [i]
                return r
            return h

        for i, (langs, ret) in enumerate(handlers):
            v = langs
            if isinstance(v, list):
                v = list(v)
            elif isinstance(v, set):
                v = set(v)
            f = fid(handlers, i, share)
            if f not in made:
                made[f] = mk(f, ret)
            em.register(kind, made[f], v)
        data = self.EventData(event_lang, kind, [])
        res = em.notify(data)
        return ran, res, list(data.out_data)


def compare(env, handlers, event_lang, kind, known, share=False):
    exp_ran, exp_res, exp_out = model(handlers, event_lang, known, share)
    ran, res, out = env.run_case(handlers, event_lang, kind, share)
    if [i for i, _ in ran] != [i for i, _ in exp_ran]:
        got = [i for i, _ in ran]
        exp = [i for i, _ in exp_ran]
        if sorted(got) == sorted(exp):
            kind_ = "order"
        elif set(got) - set(exp):
            # did an extra handler run after a block, or one with a non-matching language?
            blocked = any((handlers[i][1] in (2, 3)) for i in exp)
            kind_ = "ran-after-block" if blocked and max(got) > max(exp or [-1]) else "ran-wrong-language"
        else:
            kind_ = "matching-handler-skipped"
        return (ID, "handlers-run", kind_), "ran %s expected %s" % (got, exp)
    if ran != exp_ran:
        return (ID, "payload-seen"), "handlers saw %s expected %s" % (ran, exp_ran)
    if res != exp_res:
        return (ID, "combined-return", "got-%s-expected-%s" % (res, exp_res)), "notify returned %r expected %r" % (res, exp_res)
    if out != exp_out:
        return (ID, "final-out-data"), "out_data %r expected %r" % (out, exp_out)
    return None


def nontrivial(handlers, event_lang):
    m = [(l, r) for (l, r) in handlers if event_lang in lang_set(l) or "%" in lang_set(l)]
    return len(m) >= 2 and any(r in (None, 0, "0w", 2, 3) for _, r in m)


def jcase(handlers, event_lang, kind_name, share=False):
    return {"kind": "registration", "same_callable_for_equal_returns": share,
            "handlers": [{"langs": sorted(l) if isinstance(l, set) else l, "langs_type": type(l).__name__, "returns": r} for l, r in handlers],
            "event_lang": event_lang, "event_kind": kind_name}


def from_jcase(case):
    hs = []
    for h in case["handlers"]:
        l = h["langs"]
        if h["langs_type"] == "set":
            l = set(l)
        hs.append((l, h["returns"]))
    return hs, case["event_lang"], case["event_kind"], bool(case.get("same_callable_for_equal_returns"))


def enum_shard(arg):
    space, n, first_choices = arg
    env = Env()
    col = Collector()
    langs = LANG_FORMS if space == "forms" else LANG_BASIC
    share = space == "shared"
    choices = [(l, r) for _, l in langs for r in RETURNS]
    idx = 0
    firsts = first_choices if n > 0 else [None]
    for f in firsts:
        rests = itertools.product(choices, repeat=max(n - 1, 0))
        for rest in rests:
            handlers = ([choices[f]] if n > 0 else []) + list(rest)
            for el in EVENT_LANGS:
                idx += 1
                kind = env.known_kinds[idx % 3]
                if share and len({r for _, r in handlers}) == len(handlers):
                    continue        # no callable registered twice: the case is in the "basic" space already
                d = compare(env, handlers, el, kind, True, share)
                col.evaluations += 1
                if nontrivial(handlers, el):
                    col.nontrivial_enum += 1
                if share:
                    col.label("same_callable_registered_again")
                if d:
                    col.discrepancy(d[0] + (("same-callable-registered-again",) if share else ()), d[1], jcase(handlers, el, env.K[kind], share))
                if idx % 40009 == 1 and n >= 2:
                    col.sample(jcase(handlers, el, env.K[kind], share))
    col.extra["enumerated:%s:%d-handlers" % (space, n)] += col.evaluations
    return col


def unknown_kind_shard(arg):
    env = Env()
    col = Collector()
    import io, contextlib
    choices = [(l, r) for _, l in LANG_BASIC for r in RETURNS]
    for n in (0, 1, 2):
        for handlers in itertools.product(choices, repeat=n):
            for el in EVENT_LANGS:
                with contextlib.redirect_stdout(io.StringIO()), contextlib.redirect_stderr(io.StringIO()):
                    d = compare(env, list(handlers), el, env.unknown_kind, False)
                col.evaluations += 1
                col.label("unknown_event_kind")
                if d:
                    col.discrepancy(d[0] + ("unknown-kind",), d[1], jcase(list(handlers), el, env.K[env.unknown_kind]))
    return col


def sample_shard(arg):
    """Hypothesis sampling of the 4- and 5-handler spaces with all language spellings."""
    seed, n_examples = arg
    import hypothesis
    from hypothesis import settings, strategies as st, HealthCheck
    env = Env()
    col = Collector()
    choices = [(l, r) for _, l in LANG_FORMS for r in RETURNS]

    @hypothesis.seed(seed)
    @settings(max_examples=n_examples, deadline=None, database=None, derandomize=False, report_multiple_bugs=False,
              suppress_health_check=list(HealthCheck), phases=[hypothesis.Phase.generate])
    @hypothesis.given(st.lists(st.sampled_from(choices), min_size=4, max_size=6), st.sampled_from(EVENT_LANGS), st.integers(0, 2),
                      st.booleans())
    def prop(handlers, el, k, share):
        kind = env.known_kinds[k]
        share = share and len({r for _, r in handlers}) < len(handlers)
        d = compare(env, handlers, el, kind, True, share)
        col.evaluations += 1
        c = jcase(handlers, el, env.K[kind], share)
        if share:
            col.label("same_callable_registered_again")
        if nontrivial(handlers, el):
            col.nontriv(c)
        col.label("sampled:%d-handlers" % len(handlers))
        if d:
            col.discrepancy(d[0] + (("same-callable-registered-again",) if share else ()), d[1], c)
    prop()
    return col


# ---------------------------------------------------------------------------------------------
# default registration table

SNIPPETS = {
    "python": ("a.py", "import os.path\nclass K:\n    def m(self, x):\n        self.f = x\n        return self.f\nk = K()\nk.m(1)\n"),
    "javascript": ("a.js", "class K { m(x) { this.f = x; return this.f; } }\nvar k = new K();\nk.m(1);\n"),
    "typescript": ("a.ts", "class K { m(x: number): number { return x + 1; } }\nlet k = new K();\nk.m(1);\n"),
    "java": ("A.java", "class A { int f; int m(int x) { this.f = x; return this.f; } }\n"),
    "go": ("a.go", "package main\nfunc m(x int) int { return x }\nfunc main() { m(1) }\n"),
    "c": ("a.c", "int m(int x) { return x; }\nint main() { return m(1); }\n"),
    "php": ("a.php", "<?php\n// c\nnamespace N;\nclass K { function m($x) { $this->f = $x; return $this->f; } }\n$k = new K();\n$k->m(1);\n"),
}


def default_table(col):
    EventManager, EventData, EVENT_KIND, ArgsParser = _lian()
    from lian.events import event_manager as em_mod
    import io, contextlib
    options = ArgsParser().obtain_default_options()
    options.debug = False
    registered = []     # (event, name, langs) in registration order
    calls = []
    real_register = EventManager.register

    def recording_register(self, event, handler, langs="%"):
        name = getattr(handler, "__name__", repr(handler))
        slot = len(registered)
        registered.append((event, name, [langs] if isinstance(langs, str) else list(langs)))

        def rec(data, _slot=slot, _h=handler):
            calls.append(_slot)
            if rec.call_real:
                return _h(data)
            return 1
        rec.call_real = False
        rec.__name__ = name
        recs.append(rec)
        return real_register(self, event, rec, langs)

    recs = []
    EventManager.register = recording_register
    try:
        em = EventManager(options)
    finally:
        EventManager.register = real_register
    # synthetic: every registered kind x language; recorders answer SUCCESS without running the handler body
    langs = list(SNIPPETS) + ["llvm", "abc", "ruby"]
    kinds = sorted({e for e, _, _ in registered})
    for kind in kinds:
        for lang in langs:
            del calls[:]
            em.notify(EventData(lang, kind, []))
            exp = [i for i, (e, _, ls) in enumerate(registered) if e == kind and (lang in ls or "%" in ls)]
            col.evaluations += 1
            col.label("default-table:synthetic")
            if len(exp) >= 2:
                col.nontrivial_enum += 1
            if calls != exp:
                col.discrepancy((ID, "default-table", "synthetic", EVENT_KIND[kind]),
                                "default handlers for %s/%s ran %s expected %s" % (EVENT_KIND[kind], lang, [registered[i][1] for i in calls], [registered[i][1] for i in exp]),
                                {"kind": "default-table", "event_kind": EVENT_KIND[kind], "lang": lang})
    # real lowering runs: recorders call the real handlers
    from harness import lianrun
    for r in recs:
        r.call_real = True
    for lang, (fname, text) in SNIPPETS.items():
        del calls[:]
        try:
            with contextlib.redirect_stdout(io.StringIO()):
                lianrun.lower(text, lang, fname, event_manager=em)
        except BaseException as e:
            col.error("default-table lowering of the %s snippet failed: %r" % (lang, e))
            continue
        # expected: for each notify the frontend issues, registration order filtered by language.  Group the
        # observed calls by event kind (the frontend raises the kinds in pipeline order).
        seen_by_kind = {}
        for slot in calls:
            seen_by_kind.setdefault(registered[slot][0], []).append(slot)
        col.evaluations += 1
        col.label("default-table:real-lowering")
        for kind, slots in seen_by_kind.items():
            exp = [i for i, (e, _, ls) in enumerate(registered) if e == kind and (lang in ls or "%" in ls)]
            # the same kind may be raised several times (once per unit / stage): the observed list must be a
            # whole number of repetitions of the expected list
            ok = bool(exp) and len(slots) % len(exp) == 0 and slots == exp * (len(slots) // len(exp))
            if len(exp) >= 2:
                col.nontrivial_enum += 1
            if not ok:
                col.discrepancy((ID, "default-table", "real", EVENT_KIND[kind]),
                                "lowering %s: handlers of %s ran %s expected repetitions of %s" % (lang, EVENT_KIND[kind], [registered[i][1] for i in slots], [registered[i][1] for i in exp]),
                                {"kind": "default-table", "event_kind": EVENT_KIND[kind], "lang": lang})
    col.sample({"default_registration_order": [[EVENT_KIND[e], n, ls] for e, n, ls in registered][:12]})
    return col


def check_case(case):
    if case.get("kind") == "default-table":
        col = Collector()
        default_table(col)
        for sig, b in col.buckets.items():
            return sig, b["what"]
        return None
    env = Env()
    handlers, el, kind_name, share = from_jcase(case)
    kind = env.K.map(kind_name)
    known = kind in env.known_kinds
    import io, contextlib
    with contextlib.redirect_stdout(io.StringIO()), contextlib.redirect_stderr(io.StringIO()):
        d = compare(env, handlers, el, kind, known, share)
    if d and not known:
        d = (d[0] + ("unknown-kind",), d[1])
    return d


def replay(path):
    rec = common.load_replay(path)
    d = check_case(rec["case"])
    if d:
        kind, _ = common.classify(ID, tuple(d[0]))
        if kind == "known" and not os.environ.get("VERIF_CONFIRM"):
            print("KNOWN-FINDING: property=%s %s" % (ID, d[1]))
            return 0
        print("VIOLATION property=%s replay=%s" % (ID, path))
        print("  signature=%s %s" % (list(d[0]), d[1]))
        return 1
    print("%s replay %s: holds" % (ID, path))
    return 0


def main(tier, seed, t0):
    col = Collector()
    for path in common.replay_files(ID):
        rec = common.load_replay(path)
        d = check_case(rec["case"])
        col.evaluations += 1
        col.label("replayed")
        if d:
            col.discrepancy(d[0], d[1], rec["case"])
    default_table(col)
    if tier == "quick":
        plan = [("basic", 0), ("basic", 1), ("basic", 2), ("basic", 3), ("forms", 2), ("shared", 2), ("shared", 3)]
        sampled = 20000
    else:
        plan = [("basic", 0), ("basic", 1), ("basic", 2), ("basic", 3), ("basic", 4), ("forms", 2), ("forms", 3),
                ("shared", 2), ("shared", 3), ("shared", 4)]
        sampled = 200000
    args = []
    spaces = {}
    for space, n in plan:
        nchoices = (len(LANG_FORMS) if space == "forms" else len(LANG_BASIC)) * len(RETURNS)
        spaces["%s/%d-handlers" % (space, n)] = {"choices_per_handler": nchoices, "cases": (nchoices ** n) * len(EVENT_LANGS)}
        if space == "shared":
            import math
            spaces["%s/%d-handlers" % (space, n)]["cases"] -= (len(LANG_BASIC) ** n) * math.perm(len(RETURNS), n) * len(EVENT_LANGS)
            spaces["%s/%d-handlers" % (space, n)]["note"] = "registrations with equal return behaviour register the SAME function object again; only cases with a repeat"
        if n == 0:
            args.append((space, 0, [0]))
            continue
        firsts = list(range(nchoices))
        per = 1 if n >= 3 else len(firsts)
        for i in range(0, len(firsts), per):
            args.append((space, n, firsts[i:i + per]))
    col.merge(common.run_shards(enum_shard, args))
    col.merge(common.run_shards(unknown_kind_shard, [0]))
    nsh = common.NCPU
    col.merge(common.run_shards(sample_shard, [(common.shard_seed(seed, i), sampled // nsh + 1) for i in range(nsh)]))
    return common.finish(ID, tier, seed, col, t0, RULE, ASSUMPTIONS, exhaustive=True,
                         extra_coverage={"spaces": spaces,
                                         "explanation": "exhaustive within each listed space; 4-6 handler registrations with all spellings are sampled"})
