"""C09 — points-to results are flow-, field- and call-site-sensitive where advertised.

Loop-free 'values' programs (harness/gen_val.py); exact collecting semantics by enumerating all 2^k valuations
of the opaque branch parameters under CPython; the regular abstract values of every integer / string
definition must be EQUAL to the concrete set and contain no unknown state.
"""
import os

from harness import common, gen_val, lianrun, valcheck
from harness.common import Collector

ID = "C09"

RULE = ("loop-free Python programs: integer / string constants, constant arithmetic and concatenation, one allocation per "
        "variable, aliases by assignment, distinct field names on two classes, branches each guarded by its own entry "
        "parameter, five helper functions (identity, getter, setter, constant, add-one) called from several sites; m0 is the "
        "entry. CPython runs m0 for all 2^k parameter valuations (k <= 5) and collects, per (line, defined variable), the set of "
        "values; for integer / string definitions the set of regular abstract values (united over calling contexts) must equal "
        "it, with no unknown state. Non-trivial = the program overwrites a variable on some path, uses >= 2 fields or objects "
        "and calls one helper from >= 2 sites; distinct by source.")

ASSUMPTIONS = [
    "every CFG path is feasible because each branch has its own unknown boolean parameter, so 'union over control-flow paths' = "
    "'union over the 2^k executions'",
    "abstract values are read from the statement status of every P3 frame (recorded when saved) and the entry's state space; "
    "integers and strings are compared by their text",
    "lists are not generated (element reads are index-insensitive by design of the array abstraction)",
]


def oracle(prog):
    """-> (list of (sig, what), info)"""
    truth, runs = valcheck.ground_truth(prog)
    if truth is None:
        return [], {"discard": "concrete run raised"}
    ab, res = valcheck.analyse(prog, "c09-settings")
    try:
        if ab is None:
            exc = res.exc
            return [((ID, "analysis-crash", type(exc).__name__), "pipeline fails: %s: %s" % (type(exc).__name__, str(exc)[:200]))], {"runs": runs}
        avals, ops = ab.defined_values()
        combos = valcheck.binary_expectations(ab)
        out = []
        checked = 0
        for (line, var), cset in sorted(truth.items()):
            if not all(c[0] == "prim" for c in cset):
                continue
            aset = avals.get((line, var))
            op = ops.get((line, var), ("?", None))
            opname = op[0] + (":" + str(op[1]) if op[1] else "")
            if aset is None:
                out.append(((ID, "no-abstract-value", opname), "line %d: %s has concrete values %s but the analysis recorded no definition" % (line, var, sorted(c[1] for c in cset))))
                continue
            checked += 1
            cvals = {c[1] for c in cset}
            avals_p = {a[1] for a in aset if a[0] == "prim"}
            if valcheck.UNKNOWN in aset:
                out.append(((ID, "unknown-state", opname), "line %d: %s = %s concretely, but the abstract set contains an unknown state" % (line, var, sorted(cvals))))
                continue
            if any(a[0] not in ("prim",) for a in aset):
                out.append(((ID, "non-primitive-state", opname), "line %d: %s is %s concretely, abstract set holds %s" % (line, var, sorted(cvals), valcheck.describe(aset))))
                continue
            miss = cvals - avals_p
            extra = avals_p - cvals
            if (line, var) in combos:
                # a binary operation: exactly the results of all operand combinations (they may be more than the
                # concrete set when the operands are correlated through one branch)
                extra = avals_p - combos[(line, var)]
                lack = combos[(line, var)] - avals_p
                if lack:
                    out.append(((ID, "missing-combination", opname), "line %d: %s: operand combinations give %s, abstract set is %s" % (line, var, sorted(combos[(line, var)]), sorted(avals_p))))
            if miss:
                out.append(((ID, "missing-value", opname), "line %d: %s takes %s, abstract set %s lacks %s" % (line, var, sorted(cvals), sorted(avals_p), sorted(miss))))
            if extra:
                out.append(((ID, "extra-value", opname), "line %d: %s takes %s, abstract set %s also has %s (imprecision the property forbids)" % (line, var, sorted(cvals), sorted(avals_p), sorted(extra))))
        return out, {"runs": runs, "checked": checked}
    finally:
        lianrun.cleanup(res)


def nontrivial(prog):
    ls = set(prog["labels"])
    src = prog["source"]
    helper_sites = sum(src.count(h + "(") - 1 for h in ("ident", "getf0", "setf1", "add1"))
    return "overwrite" in ls and ("field_write" in ls or "allocation" in ls) and helper_sites >= 2


def shard(arg):
    seed, n_examples = arg
    import hypothesis
    from hypothesis import settings, HealthCheck
    col = Collector()
    stepover_empty = any(e.get("id") == "C09-empty-string-constant" and e.get("status") == "open" for e in common.load_known(ID))
    stepover_weak = any(e.get("id") == "C09-callee-field-write-weak-update" and e.get("status") == "open" for e in common.load_known(ID))
    if stepover_weak:
        col.stepovers["C09-callee-field-write-weak-update: the setter helper is not called"] += 1
    if stepover_empty:
        col.stepovers["C09-empty-string-constant: the constant \"\" is not generated"] += 1

    @hypothesis.seed(seed)
    @settings(max_examples=n_examples, deadline=None, database=None, derandomize=False, report_multiple_bugs=False,
              suppress_health_check=list(HealthCheck), phases=[hypothesis.Phase.generate])
    @hypothesis.given(gen_val.programs(loops=False, lists=False, empty_string=not stepover_empty, callee_field_write=not stepover_weak))
    def prop(prog):
        ds, info = oracle(prog)
        col.evaluations += 1
        if "discard" in info:
            col.discards[info["discard"]] += 1
            return
        for l in prog["labels"]:
            col.labels[l] += 1
        col.extra["concrete_runs"] += info.get("runs", 0)
        col.extra["definitions_compared"] += info.get("checked", 0)
        if nontrivial(prog):
            col.nontriv(prog["source"])
            if len(col.samples) < 2:
                col.sample({"source": prog["source"]})
        for sig, what in ds:
            col.discrepancy(sig, what, {"source": prog["source"], "params": prog["params"], "defs": prog["defs"], "labels": prog["labels"]})
    prop()
    lianrun.cleanup_scratch()
    return col


def check_case(case):
    prog = {"source": case["source"], "params": case["params"], "defs": {int(k): v for k, v in case["defs"].items()}, "labels": case.get("labels", [])}
    ds, info = oracle(prog)
    return ds


def collapse(ds, finding_id):
    if not finding_id or not ds:
        return ds
    if not any(e.get("id") == finding_id and e.get("status") == "open" for e in common.load_known(ID)):
        return ds
    return [((ID, "finding", finding_id), ds[0][1])]


def replay(path):
    rec = common.load_replay(path)
    ds = collapse(check_case(rec["case"]), rec.get("finding"))
    rc = 0
    want = tuple(rec.get("signature") or ())
    for sig, what in ds:
        kind, _ = common.classify(ID, sig)
        if kind == "known" and not os.environ.get("VERIF_CONFIRM"):
            print("KNOWN-FINDING: property=%s %s" % (ID, what))
            continue
        if os.environ.get("VERIF_CONFIRM") and want and tuple(sig) != want:
            continue
        print("VIOLATION property=%s replay=%s" % (ID, path))
        print("  signature=%s %s" % (list(sig), what))
        rc = 1
    if rc == 0:
        print("%s replay %s: no unlisted discrepancy" % (ID, path))
    return rc


def main(tier, seed, t0):
    col = Collector()
    for path in common.replay_files(ID):
        rec = common.load_replay(path)
        for sig, what in collapse(check_case(rec["case"]), rec.get("finding")):
            col.discrepancy(sig, what, rec["case"])
        col.evaluations += 1
        col.labels["replayed"] += 1
    total = 1200 if tier == "quick" else 20000
    nsh = common.NCPU * (1 if tier == "quick" else 4)
    col.merge(common.run_shards(shard, [(common.shard_seed(seed, i), total // nsh + 1) for i in range(nsh)]))
    lianrun.cleanup_scratch()
    return common.finish(ID, tier, seed, col, t0, RULE, ASSUMPTIONS)
