"""C06 — reaching definitions are sound and flow-sensitive.

Single-method Python programs (control shapes of harness/gen_ctl.py whose simple statements are definitions
`v = <const>` and uses `use(v)` over two variables) are analysed with the method as entry point (parameters
unknown, no branch pruned).  The set the analysis treats as reaching at a use = the definitions with a
SYMBOL_IS_USED edge to the use statement in the entry's state-flow graph (what the taint phase consumes).
"""
import os
import re

from harness import common, gen_ctl, girsem, lianrun, walker
from harness.common import Collector

ID = "C06"
LANG = "python"
VARS = ("x", "y")
BATCH = 16

RULE = ("Python methods: prologue x = c; y = c, a control shape (if / if-else, while, while-else, for-in, break, continue, return; "
        "up to 8 nodes, depth 3, sampled by Hypothesis, plus all shapes with <= 3 nodes under a fixed payload rotation) whose simple "
        "statements are definitions v = <distinct constant>, uses t<k> = v or updates v = v + <constant> (x is a local, y a parameter), epilogue t = x; t = y; each method is its own entry "
        "point. For every use u of v: (1) soundness - on every walker path with each loop body run 0 or 1 times the last definition "
        "of v before u is in the analysis' set; (2) no dead definitions - every definition in the set has a path to u in lian's own "
        "CFG that passes no other definition of v; (3) on loop-free methods the set equals the classical reaching-definitions "
        "fixpoint over lian's CFG. Non-trivial = a method with a variable that has >= 2 definitions and a use reached by >= 2 "
        "walker paths; distinct by shape. The enumerated shapes and half as many sampled shapes are checked once more through the "
        "JavaScript frontend (function m(c0, c1, c2, n, lst, y) { var x; ... var t<k> = v; }, no while-else).")

ASSUMPTIONS = [
    "the analysis' reaching set at use u of v is read from SYMBOL_IS_USED edges (symbol node def_stmt_id -> statement node u) of the "
    "entry point's state-flow graph, united over contexts",
    "walker paths are concrete executions because every branch condition is an unknown entry parameter",
    "definitions are assign_stmt rows with a constant operand; uses are plain copies t<k> = v into a fresh variable (a call with v as argument would count as an implicit re-definition of v in lian's model)",
]


def build_method(shape):
    # x is a local initialised by the prologue; y is a parameter (its first definition is the parameter_decl)
    pro = (("s", "def", "x"),)
    epi = (("s", "use", "x"), ("s", "use", "y"))
    # an epilogue after a trailing unconditional jump would be dead code, but it is harmless
    return pro + shape + epi


UNIT = {"python": "a.py", "javascript": "a.js"}


def set_lang(lang):
    global LANG
    LANG = lang


def render(blocks):
    # every method takes its parameters (so that y is one): shift the parameterless slots away
    src = gen_ctl.render_methods(LANG, blocks, extra_params=", y")
    if LANG == "python":
        return src.replace("():", "(c0, c1, c2, n, lst, y):")
    # javascript: x is a local declared at the top of the function, y a parameter, the copies t<k> are declared locals
    src = src.replace("var x = 0;\n", "")
    src = re.sub(r"function (m\d+)\([^)]*\) \{", lambda m: "function %s(c0, c1, c2, n, lst, y) {\n    var x;" % m.group(1), src)
    return re.sub(r"^(\s+)(t\d+) = ", r"\1var \2 = ", src, flags=re.M)


def analyse_batch(shapes, col, label):
    blocks = [build_method(s) for s in shapes]
    src = render(blocks)
    if LANG == "python":
        try:
            compile(src, "a.py", "exec")
        except SyntaxError as e:
            col.error("generator produced invalid Python (%s):\n%s" % (e, src[:500]))
            return
    sd = lianrun.write_settings(os.path.join(lianrun.scratch_dir(), "c06-settings"),
                                entry=[{"method_list": ["m%d" % i for i in range(len(blocks))]}])
    res = lianrun.analyze({UNIT[LANG]: src}, settings_dir=sd, lang=LANG)
    try:
        if res.exc is not None:
            if len(shapes) > 1:
                lianrun.cleanup(res)
                for s in shapes:
                    analyse_batch([s], col, label)
                return
            col.evaluations += 1
            col.discrepancy((ID, LANG, "analysis-crash", type(res.exc).__name__),
                            "pipeline fails on a generated method: %s: %s" % (type(res.exc).__name__, str(res.exc)[:200]),
                            {"shapes": [shapes[0]], "lang": LANG})
            return
        from lian.config.constants import SFG_EDGE_KIND, SFG_NODE_KIND
        L = res.loader
        gir = None
        for info in L.get_all_unit_info():
            gir = L.get_unit_gir(info.module_id)
        prog = girsem.Program(list(gir))
        by_name = {r.get("name"): r for r in prog.rows if r["operation"] == "method_decl"}
        eps = {int(e) for e in L.get_entry_points()}
        for i, shape in enumerate(shapes):
            col.evaluations += 1
            col.labels[label] += 1
            row = by_name.get("m%d" % i)

            def case_fn(shape=shape):
                return {"shapes": [shape], "lang": LANG}
            if row is None or int(row["stmt_id"]) not in eps:
                col.discrepancy((ID, LANG, "not-an-entry"), "method m%d is not an entry point" % i, case_fn())
                continue
            mid = int(row["stmt_id"])
            sfg = L.get_global_sfg_by_entry_point(mid)
            cfg = L.get_method_cfg(mid)
            if sfg is None or cfg is None:
                col.discrepancy((ID, LANG, "no-sfg"), "no state-flow graph / CFG for entry m%d" % i, case_fn())
                continue
            reach = {}      # use stmt id -> set of def stmt ids (by symbol name)
            for u, v, w in sfg.edges(data=True):
                wt = w.get("weight")
                if wt is None or wt.edge_type != SFG_EDGE_KIND.SYMBOL_IS_USED:
                    continue
                if u.node_type != SFG_NODE_KIND.SYMBOL or v.node_type != SFG_NODE_KIND.STMT:
                    continue
                reach.setdefault((int(v.def_stmt_id), u.name), set()).add(int(u.def_stmt_id))
            check_method(prog, row, cfg, reach, shape, col, case_fn)
    finally:
        lianrun.cleanup(res)


def ancestors(prog, sid):
    """[(owner op, column)] from the statement outwards."""
    out = []
    r = prog.by_id.get(sid)
    owner_of_block = {}
    for o in prog.rows:
        if o["operation"] in ("block_start", "block_end"):
            continue
        for c in girsem.BODY_COLUMNS:
            v = o.get(c)
            if not girsem.isnull(v) and not isinstance(v, str):
                owner_of_block[int(v)] = (o, c)
    while r is not None:
        b = r.get("parent_stmt_id")
        if girsem.isnull(b) or int(b) not in owner_of_block:
            break
        o, c = owner_of_block[int(b)]
        out.append((int(o["stmt_id"]), o["operation"], c))
        r = o
    return out


def relation(prog, d, u):
    """Root-cause class of a (definition, use) pair: where d sits relative to u."""
    ad = ancestors(prog, d)
    au = ancestors(prog, u)
    ids_u = {x[0] for x in au}
    d_only = [x for x in ad if x[0] not in ids_u]
    ids_d = {x[0] for x in ad}
    u_only = [x for x in au if x[0] not in ids_d]
    loops = ("while_stmt", "forin_stmt", "for_stmt", "dowhile_stmt", "for_value_stmt")
    dl = any(op in loops and c == "body" for _, op, c in d_only)
    ul = any(op in loops and c == "body" for _, op, c in u_only)
    shared_loop = any(op in loops for sid, op, c in ad if sid in ids_u)
    return "def-%s,use-%s%s" % ("in-loop-not-containing-use" if dl else "outside-loops" if not shared_loop else "in-shared-loop",
                                "in-loop-not-containing-def" if ul else "plain",
                                "")


def check_method(prog, row, cfg, reach, shape, col, case_fn):
    defs = {}     # var -> set(stmt ids)
    uses = {}     # stmt id -> var
    own = walker.own_statement_ids(prog, row)
    for sid in own:
        r = prog.by_id[sid]
        if r["operation"] == "assign_stmt" and r.get("target") in VARS:
            defs.setdefault(r["target"], set()).add(sid)
        if r["operation"] == "parameter_decl" and r.get("name") in VARS:
            defs.setdefault(r["name"], set()).add(sid)
        if r["operation"] == "assign_stmt" and r.get("operand") in VARS:
            # a copy t<k> = v, or an update v = v + <const> (use and definition of v in one statement)
            uses[sid] = r["operand"]
    w = walker.Walker(prog, LANG, max_iter=1)
    try:
        paths = w.method_paths(row)
    except walker.TooManyPaths:
        col.discards["too-many-paths"] += 1
        return
    # (1) soundness
    required = {}       # (u, v) -> set(d)
    witness = {}        # (u, v, d) -> best (cost, features)
    multi = {}          # (u, v) -> number of paths reaching u
    loop_ops = ("while_stmt", "forin_stmt", "for_stmt", "dowhile_stmt", "for_value_stmt")
    for trace, outcome in paths:
        last = {}
        for pos, (sid, _) in enumerate(trace):
            if sid in uses:
                v = uses[sid]
                if v in last:
                    d, dpos = last[v]
                    required.setdefault((sid, v), set()).add(d)
                    multi[(sid, v)] = multi.get((sid, v), 0) + 1
                    between = [prog.by_id[x]["operation"] for x, _ in trace[dpos + 1:pos] if x in prog.by_id]
                    feats = set()
                    if any(o in loop_ops for o in between):
                        feats.add("via-loop-header")
                    if "break_stmt" in between:
                        feats.add("via-break")
                    if "continue_stmt" in between:
                        feats.add("via-continue")
                    if "if_stmt" in between:
                        feats.add("via-if")
                    cost = (len(feats & {"via-loop-header", "via-break", "via-continue"}), len(feats), len(between))
                    key = (sid, v, d)
                    if key not in witness or cost < witness[key][0]:
                        loopy = "via-loop-header" if "via-loop-header" in feats else "no-loop-between"
                        rest = "+".join(sorted(feats - {"via-loop-header"})) or "-"
                        witness[key] = (cost, (loopy, rest))
            r = prog.by_id.get(sid)
            if r is not None and r["operation"] == "assign_stmt" and r.get("target") in VARS:
                last[r["target"]] = (sid, pos)
            if r is not None and r["operation"] == "parameter_decl" and r.get("name") in VARS:
                last[r["name"]] = (sid, pos)
    loops = bool(gen_ctl.constructs_of(shape) & {"wh", "fi", "fc", "dw"})
    n_loops = sum(1 for sid in own if prog.by_id[sid]["operation"] in loop_ops)
    branching = ("if_stmt", "switch_stmt", "try_stmt", "break_stmt", "continue_stmt", "return_stmt")
    in_loop_branching = any(prog.by_id[sid]["operation"] in branching and any(op in loop_ops for _, op, _ in ancestors(prog, sid)) for sid in own)
    # the open finding (visit limit used up by header / post-loop statements) needs a cycle besides the plain back edge:
    # a second loop, or a branch / jump inside the loop body
    loop_class = "single-straight-loop" if (n_loops <= 1 and not in_loop_branching) else "loops-with-inner-branching-or-several"
    nontrivial = False
    for (u, v), ds in sorted(required.items()):
        got = reach.get((u, v), set())
        if len(defs.get(v, ())) >= 2 and multi.get((u, v), 0) >= 2:
            nontrivial = True
        for d in sorted(ds - got):
            col.discrepancy((ID, LANG, "unsound") + witness[(u, v, d)][1] + (loop_class,),
                            "definition %d of %s reaches use %d on an execution (loops run <= once) but is not in the analysis' set %s" % (d, v, u, sorted(got)),
                            case_fn())
        col.extra["soundness_obligations"] += len(ds)
    # (2) no dead definitions, (3) classical solution on loop-free code
    nodes = {int(n) for n in cfg.nodes()}
    succ = {}
    for e in cfg.edges():
        succ.setdefault(int(e[0]), set()).add(int(e[1]))
    reachable = {sid for trace, _ in paths for sid, _ in trace}
    for (u, v), got in sorted(reach.items()):
        if v not in VARS or u not in uses or u not in reachable:
            continue        # (statements after an if whose arms all jump are dead code: nothing is claimed about them)
        others = defs.get(v, set())
        live = set()
        for d in others:
            # path d -> u avoiding other definitions of v
            seen = {d}
            stack = [d]
            ok = False
            while stack and not ok:
                x = stack.pop()
                for y in succ.get(x, ()):
                    if y == u:
                        ok = True
                        break
                    if y in seen or (y in others and y != d):
                        continue
                    seen.add(y)
                    stack.append(y)
            if ok:
                live.add(d)
        for d in sorted(got - live):
            if d not in others:
                continue
            col.discrepancy((ID, LANG, "dead-definition-kept", relation(prog, d, u)),
                            "definition %d of %s is in the analysis' set at use %d but every CFG path from it to the use passes another definition" % (d, v, u),
                            case_fn())
        if not loops:
            for d in sorted(live - got):
                if (u, v) in required and d in required[(u, v)]:
                    continue        # already reported as unsound
                col.discrepancy((ID, LANG, "not-classical-solution", relation(prog, d, u)),
                                "loop-free method: classical reaching definitions over the CFG give %s at use %d of %s, analysis has %s" % (sorted(live), u, v, sorted(got)),
                                case_fn())
    if nontrivial:
        col.nontriv(shape)
    for c in gen_ctl.constructs_of(shape):
        col.labels["construct:" + c] += 1
    if len(col.samples) < 2 and nontrivial:
        col.sample({"source": render([build_method(shape)]), "uses": len(uses), "paths": len(paths)})


def kinds():
    if LANG != "python":
        return {"s", "if", "wh", "fi", "br", "co", "rt"}        # while-else is Python's
    return {"s", "if", "wh", "fi", "br", "co", "rt", "whelse"}


def sample_shard(arg):
    seed, n_examples = arg[:2]
    set_lang(arg[2] if len(arg) > 2 else "python")
    import hypothesis
    from hypothesis import settings, HealthCheck, strategies as st
    col = Collector()
    payload = st.tuples(st.sampled_from(["def", "def", "use", "use", "upd"]), st.sampled_from(VARS))

    @st.composite
    def method(draw):
        shape = draw(gen_ctl.shapes(kinds(), max_nodes=8, depth=3))
        return gen_ctl.with_payloads(shape, lambda: draw(payload))

    @hypothesis.seed(seed)
    @settings(max_examples=max(1, n_examples // BATCH), deadline=None, database=None, derandomize=False, report_multiple_bugs=False,
              suppress_health_check=list(HealthCheck), phases=[hypothesis.Phase.generate])
    @hypothesis.given(st.lists(method(), min_size=BATCH, max_size=BATCH))
    def prop(shapes):
        analyse_batch([s for s in shapes if s], col, "sampled")
    prop()
    lianrun.cleanup_scratch()
    return col


def enum_shard(arg):
    shard, nshards, max_nodes = arg[:3]
    set_lang(arg[3] if len(arg) > 3 else "python")
    col = Collector()
    rot = [("def", "x"), ("use", "x"), ("def", "y"), ("upd", "x"), ("use", "y"), ("def", "y"), ("use", "x"), ("upd", "y")]
    batch = []
    for idx, b in enumerate(gen_ctl.all_shapes(max_nodes, 3, kinds())):
        if idx % nshards != shard:
            continue
        counter = [idx]

        def choose():
            counter[0] += 1
            return rot[counter[0] % len(rot)]
        batch.append(gen_ctl.with_payloads(b, choose))
        if len(batch) >= BATCH:
            analyse_batch(batch, col, "enumerated")
            batch = []
    if batch:
        analyse_batch(batch, col, "enumerated")
    lianrun.cleanup_scratch()
    return col


def _tuplify(x):
    if isinstance(x, list):
        return tuple(_tuplify(y) for y in x)
    return x


def check_case(case):
    col = Collector()
    set_lang(case.get("lang", "python"))
    analyse_batch([_tuplify(s) for s in case["shapes"]], col, "replayed")
    return col


def replay(path):
    rec = common.load_replay(path)
    col = check_case(rec["case"])
    rc = 0
    for sig, b in col.buckets.items():
        kind, _ = common.classify(ID, sig)
        if kind == "known" and not os.environ.get("VERIF_CONFIRM"):
            print("KNOWN-FINDING: property=%s %s" % (ID, b["what"]))
            continue
        want = tuple(rec.get("signature") or ())
        if os.environ.get("VERIF_CONFIRM") and want and tuple(sig) != want:
            continue
        print("VIOLATION property=%s replay=%s" % (ID, path))
        print("  signature=%s %s" % (list(sig), b["what"]))
        rc = 1
    if rc == 0:
        print("%s replay %s: no unlisted discrepancy" % (ID, path))
    return rc


def main(tier, seed, t0):
    col = Collector()
    for path in common.replay_files(ID):
        col.merge(check_case(common.load_replay(path)["case"]))
    nsh = common.NCPU
    n_sampled = 1600 if tier == "quick" else 40000
    max_nodes = 3 if tier == "quick" else 4
    col.merge(common.run_shards(enum_shard, [(i, nsh, max_nodes) for i in range(nsh)]))
    col.merge(common.run_shards(sample_shard, [(common.shard_seed(seed, i), n_sampled // nsh) for i in range(nsh)]))
    # the same three relations through the JavaScript frontend (x: `var x;` at the top of the function, y: a parameter)
    col.merge(common.run_shards(enum_shard, [(i, nsh, max_nodes, "javascript") for i in range(nsh)]))
    col.merge(common.run_shards(sample_shard, [(common.shard_seed(seed, 500 + i), (n_sampled // 2) // nsh, "javascript") for i in range(nsh)]))
    set_lang("python")
    lianrun.cleanup_scratch()
    return common.finish(ID, tier, seed, col, t0, RULE, ASSUMPTIONS)
