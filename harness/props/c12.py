"""C12 — results are invariant under meaning-preserving edits of the input.

Generated Python base projects (functions calling each other, a class with a method, parameter taint sources and
sink calls, globally unique identifiers) x sequences of 1-3 edits (blank / comment lines, consistent renaming,
no-op insertion, reordering adjacent top-level definitions, moving a function into a new file and importing it);
call sites, resolved bindings and taint flows are compared after mapping every position of the edited project back
to the original one.
"""
import os
import re

from harness import common, lianrun
from harness import c05_lian as L
from harness.common import Collector

ID = "C12"

RULE = ("base projects: one Python file with 2-4 functions (unique parameter / local names; some parameters are named p, the "
        "configured taint source), call chains f_i -> f_j (j > i), sink(v) calls, one class with a method, module-level calls; "
        "edit sequences of length 1-3 drawn from {insert blank or comment lines, rename a local / parameter / function / class / "
        "method to a fresh name (whole-word, identifiers are unique), insert a no-op statement (pass / assignment to a fresh "
        "unused variable), swap two adjacent top-level definitions that precede all module-level code, move a top-level function "
        "to a new file and import it}. Both versions are analysed (run) and the call sites of all stored call paths, the P1 "
        "binding of every identifier occurrence and the taint flows (source position, sink position) must be equal after mapping "
        "positions (and the renamed name) back. Non-trivial = the base has >= 1 call edge and >= 1 flow (or >= 3 bindings) and "
        "the edit changed the text; distinct by (base, edit sequence). Every frontend: core-language programs (harness/gen_core.py) "
        "rendered in python, javascript, typescript, java, go, c and php x 1-3 edits of {blank line, comment line (never before the "
        "first line), whole-word renaming of a function / parameter / local to a fresh name}, with the rules source = parameter p0, "
        "sink = out(arg0), entries %unit_init and main; corpus: small files (40-2500 bytes) of the repository's per-language test "
        "corpora with one blank or comment line put in front (quick: a seeded sample of 96, thorough: all); same three "
        "observations, same mapping; a program on which lian fails in both versions is discarded and counted.")

ASSUMPTIONS = [
    "identifiers of the generated projects are globally unique, so whole-word replacement is a consistent renaming",
    "core-language programs: whole-word renaming of f<n> / p<n> (n >= 1) / v<n> / i<n> / w<n> renames every variable of that name in the file "
    "consistently; p0 (named by the source rule), out and main are never renamed; swap / move / no-op edits are Python-only",
    "corpus files get a line in front only (no knowledge of where else a line may be inserted); PHP is excluded there (text before <?php is output)",
    "after 'move function + import' the binding of the moved function's own name necessarily changes (it now resolves through an "
    "import); bindings of that name are not compared for this edit, its call edges and flows are",
    "observations are read through harness/c05_lian.py (P1 symbol space, GIR rows) and Loader.get_call_paths_p3; flows by wrapping find_flows",
]

SETTINGS = {}


def settings_dir():
    d = os.path.join(lianrun.scratch_dir(), "c12-settings")
    if SETTINGS.get(os.getpid()) and os.path.isdir(d):
        return d
    lianrun.write_settings(d, entry=[{"method_list": ["%unit_init"]}],
                           source=[{"lang": "python", "rules": [{"operation": "parameter_decl", "name": "p"}]}],
                           sink=[{"lang": "python", "rules": [{"operation": "call_stmt", "name": "sink", "target": ["\\%arg0"]}]}])
    SETTINGS[os.getpid()] = True
    return d


# ---------------------------------------------------------------------------------------------
# base projects

def gen_base(draw, st):
    """-> list of lines of main.py, metadata (names)"""
    lines = []
    names = {"locals": [], "params": [], "funcs": [], "classes": [], "methods": [], "shadow": []}
    # a module-level variable assigned above the definitions; some functions have a local of the same name
    shadow = draw(st.booleans())
    if shadow:
        lines.append("shad_0 = 7")
    n = draw(st.integers(2, 4))
    fnames = ["fun%c" % "abcd"[i] for i in range(n)]
    blocks = []       # (start, end) line index ranges of top-level definitions
    for i, fn in enumerate(fnames):
        start = len(lines)
        source = draw(st.integers(0, 2)) == 0 or i == 0
        par = "p" if source else "arg_%s" % fn
        if not source:
            names["params"].append(par)
        lines.append("def %s(%s):" % (fn, par))
        cur = par
        k = draw(st.integers(1, 4))
        for j in range(k):
            v = "loc_%s_%d" % (fn, j)
            if shadow and draw(st.integers(0, 2)) == 0:
                v = "shad_0"
            r = draw(st.integers(0, 5))
            if r <= 1:
                lines.append("    %s = %s" % (v, cur))
            elif r == 2:
                lines.append("    %s = %s + 1" % (v, cur))
            elif r == 3 and i + 1 < n:
                callee = fnames[draw(st.integers(i + 1, n - 1))]
                lines.append("    %s = %s(%s)" % (v, callee, cur))
            elif r == 4:
                lines.append("    sink(%s)" % cur)
                continue
            else:
                lines.append("    %s = %d" % (v, j))
            if v == "shad_0":
                if (fn, v) not in names["shadow"]:
                    names["shadow"].append((fn, v))
            else:
                names["locals"].append(v)
            if draw(st.booleans()):
                cur = v
        lines.append("    sink(%s)" % cur if draw(st.booleans()) else "    return %s" % cur)
        if not lines[-1].strip().startswith("return"):
            lines.append("    return %s" % cur)
        names["funcs"].append(fn)
        blocks.append((start, len(lines)))
    if draw(st.booleans()):
        start = len(lines)
        lines += ["class Klass:", "    def meth(self, p):", "        loc_meth = p", "        sink(loc_meth)", "        return loc_meth"]
        names["classes"].append("Klass")
        names["methods"].append("meth")
        names["locals"].append("loc_meth")
        blocks.append((start, len(lines)))
        has_class = True
    else:
        has_class = False
    top_start = len(lines)
    lines.append("top_0 = 1")
    names["locals"].append("top_0")
    for i, fn in enumerate(fnames):
        if i == 0 or draw(st.booleans()):
            lines.append("top_r%d = %s(top_0)" % (i, fn))
            names["locals"].append("top_r%d" % i)
    if has_class:
        lines.append("top_k = Klass()")
        lines.append("top_m = top_k.meth(top_0)")
        names["locals"] += ["top_k", "top_m"]
    return lines, {"names": names, "blocks": blocks, "top_start": top_start}


# ---------------------------------------------------------------------------------------------
# edits: every edit maps (files, lmap) -> (files, lmap); files = {unit: [lines]};
# lmap[(unit, new_line_no)] = (old_unit, old_line_no) | None   (1-based line numbers)

def identity_map(files):
    return {(u, i + 1): (u, i + 1) for u, ls in files.items() for i in range(len(ls))}


def apply_edit(files, lmap, edit, meta):
    kind = edit[0]
    files = {u: list(ls) for u, ls in files.items()}
    new_map = {}
    if kind == "blank":
        _, unit, at, text = edit
        ls = files[unit]
        at = at % (len(ls) + 1)
        # a comment / blank line must not split a block: use the indentation of the following line
        ind = ""
        if at < len(ls):
            ind = ls[at][:len(ls[at]) - len(ls[at].lstrip())]
        newl = ls[:at] + [(ind + text) if text else ""] + ls[at:]
        files[unit] = newl
        for (u, n), old in lmap.items():
            if u != unit or n <= at:
                new_map[(u, n)] = old
            else:
                new_map[(u, n + 1)] = old
        new_map[(unit, at + 1)] = None
        return files, new_map, None
    if kind == "top":
        # a line in front of the whole file (no indentation: the file's first line is at column 0)
        _, unit, text = edit
        nlines = len(files[unit])
        files[unit] = [text] + files[unit]
        for (u, n), old in lmap.items():
            new_map[(u, n + 1) if u == unit else (u, n)] = old
        # lian's own line numbers may lie beyond the end of the file (its Python import preprocessor splits
        # `import a, b` into two lines and every later row is off by one): such positions shift like the others
        for n in range(nlines + 1, nlines + 60):
            new_map.setdefault((unit, n + 1), (unit, n))
        new_map[(unit, 1)] = None
        return files, new_map, None
    if kind == "noop":
        _, unit, at, text = edit
        ls = files[unit]
        # insert before a simple statement line (not a def/class header's first body position problem: same indentation works)
        cands = [i for i, l in enumerate(ls) if l.strip() and not l.lstrip().startswith(("def ", "class "))]
        if not cands:
            return files, lmap, None
        at = cands[at % len(cands)]
        ind = ls[at][:len(ls[at]) - len(ls[at].lstrip())]
        return _insert(files, lmap, unit, at, ind + text)
    if kind == "rename":
        _, old, fresh = edit
        pat = re.compile(r"\b%s\b" % re.escape(old))
        for u in files:
            files[u] = [pat.sub(fresh, l) for l in files[u]]
        return files, dict(lmap), (old, fresh)
    if kind == "rename_in":
        # consistent renaming of a local variable: only inside the function that owns it
        _, fn, old, fresh = edit
        pat = re.compile(r"\b%s\b" % re.escape(old))
        for u in files:
            ls = files[u]
            for (b0, b1) in scan_blocks(ls):
                if ls[b0].startswith("def %s(" % fn):
                    files[u] = ls[:b0] + [pat.sub(fresh, l) for l in ls[b0:b1]] + ls[b1:]
                    return files, dict(lmap), (old, fresh)
        return files, dict(lmap), None
    if kind == "swap":
        _, idx = edit
        unit = "main.py"
        blocks = scan_blocks(files[unit])
        if len(blocks) < 2:
            return files, lmap, None
        i = idx % (len(blocks) - 1)
        (a0, a1), (b0, b1) = blocks[i], blocks[i + 1]
        if a1 != b0:
            return files, lmap, None
        ls = files[unit]
        newl = ls[:a0] + ls[b0:b1] + ls[a0:a1] + ls[b1:]
        files[unit] = newl
        shift_b = b1 - b0
        for (u, n), old in lmap.items():
            if u != unit:
                new_map[(u, n)] = old
                continue
            k = n - 1
            if a0 <= k < a1:
                new_map[(u, k + shift_b + 1)] = old
            elif b0 <= k < b1:
                new_map[(u, k - (a1 - a0) + 1)] = old
            else:
                new_map[(u, n)] = old
        return files, new_map, None
    if kind == "move":
        idx = edit[1]
        unit = edit[2] if len(edit) > 2 else "main.py"
        if unit not in files:
            return files, lmap, None
        blocks = [b for b in scan_blocks(files[unit]) if files[unit][b[0]].startswith("def ")]
        if not blocks or "helper_zz.py" in files:
            return files, lmap, None
        b0, b1 = blocks[idx % len(blocks)]
        ls = files[unit]
        fname = ls[b0].split("(")[0][4:]
        moved = ls[b0:b1]
        # the moved function must not call other functions of main (it would need imports back)
        body = "\n".join(moved[1:])
        others = [l.split("(")[0].split(":")[0].split()[1] for l in ls if l.startswith(("def ", "class "))]
        # ... nor names the unit imports (the new file would need the same import)
        others += [l.split(" import ")[1].strip() for l in ls if l.startswith("from ") and " import " in l]
        if any(re.search(r"\b%s\b" % re.escape(o), body) for o in others if o != fname):
            return files, lmap, None
        files["helper_zz.py"] = list(moved)
        files[unit] = ["from helper_zz import %s" % fname] + ls[:b0] + ls[b1:]
        for (u, n), old in lmap.items():
            if u != unit:
                new_map[(u, n)] = old
                continue
            k = n - 1
            if b0 <= k < b1:
                new_map[("helper_zz.py", k - b0 + 1)] = old
            elif k < b0:
                new_map[(u, n + 1)] = old
            else:
                new_map[(u, n - (b1 - b0) + 1)] = old
        new_map[(unit, 1)] = None
        meta["moved"] = fname
        return files, new_map, None
    raise ValueError(kind)


PRELUDE_RE = re.compile(r"^shad_\d+ = \d+$")      # constants assigned above the definitions


def scan_blocks(ls):
    """Top-level definitions (def / class at column 0 with their indented or blank continuation lines) that precede
    all module-level executable code: [(start, end)] as 0-based half-open line index ranges."""
    out = []
    i = 0
    n = len(ls)
    while i < n:
        l = ls[i]
        if l.startswith(("def ", "class ")):
            j = i + 1
            while j < n and (not ls[j].strip() or ls[j][0] in " \t" or ls[j].lstrip().startswith("#")):
                j += 1
            out.append((i, j))
            i = j
            continue
        if not l.strip() or l.startswith("#") or l.startswith(("from ", "import ")) or PRELUDE_RE.match(l):
            i += 1
            continue
        break
    return out


def _insert(files, lmap, unit, at, text):
    ls = files[unit]
    files[unit] = ls[:at] + [text] + ls[at:]
    new_map = {}
    for (u, n), old in lmap.items():
        if u != unit or n <= at:
            new_map[(u, n)] = old
        else:
            new_map[(u, n + 1)] = old
    new_map[(unit, at + 1)] = None
    return files, new_map, None


# ---------------------------------------------------------------------------------------------
# observation

def settings_dir_core():
    """rules for the core-language programs of the other frontends: the first parameter p0 is the source, out(x) the sink"""
    d = os.path.join(lianrun.scratch_dir(), "c12-settings-core")
    if SETTINGS.get(("core", os.getpid())) and os.path.isdir(d):
        return d
    lianrun.write_settings(d, entry=[{"method_list": ["%unit_init", "main"]}],
                           source=[{"lang": "python", "rules": [{"operation": "parameter_decl", "name": "p0"}]}],
                           sink=[{"lang": "python", "rules": [{"operation": "call_stmt", "name": "out", "target": ["\\%arg0"]}]}])
    SETTINGS[("core", os.getpid())] = True
    return d


def observe(files, lang="python", core=False):
    """-> dict(bindings, calls, flows) over (unit, line) positions, or {"error": ...}"""
    texts = {u: "\n".join(ls) + "\n" for u, ls in files.items()}
    if lang == "python":
        for u, t in texts.items():
            compile(t, u, "exec")
    b, res = L.analyze(texts, lang, export=False, sub_command="run",
                       settings_dir=settings_dir_core() if core else settings_dir(), capture_flows=True)
    try:
        if b.error:
            return {"error": b.error[-400:]}

        def pos(stmt_id):
            r = b.rows.get(int(stmt_id))
            if r is None:
                return ("?", int(stmt_id))
            if r["op"] == "method_decl" and r.get("name") == "%unit_init":
                return (r["unit"], 0)
            return (r["unit"], r["line"])
        obs = {"bindings": {}, "calls": set(), "flows": set()}
        for s in b.symbols:
            if s["name"].startswith("%"):
                continue
            d = b.describe(s["symbol_id"])
            if d["kind"] == "decl":
                tgt = ("decl", (d["unit"], d["line"]), d["op"], d.get("name"))
            elif d["kind"] == "module":
                tgt = ("module", d["path"])
            else:
                tgt = (d["kind"],)
            obs["bindings"].setdefault(((s["unit"], s["line"]), s["op"], s["name"]), set()).add(tgt)
        for p in res.loader.get_call_paths_p3() or ():
            for cs in p:
                if int(cs.call_stmt_id) <= 0:
                    continue
                obs["calls"].add((pos(cs.caller_id), pos(cs.call_stmt_id), pos(cs.callee_id)))
        for fl in res.flows:
            for f in fl:
                obs["flows"].add((pos(f.source_stmt_id), pos(f.sink_stmt_id)))
        return obs
    finally:
        lianrun.cleanup(res)


def map_obs(obs, lmap, renames, moved, orig_units=("main.py",)):
    """Express the observation of the edited project in the positions / names of the original one."""
    back = {}
    for old, fresh in renames:
        back[fresh] = back.get(old, old)

    def nm(n):
        if isinstance(n, str) and n.startswith("$") and n[1:] in back:      # PHP variables
            return "$" + back[n[1:]]
        return back.get(n, n)

    def mp(p):
        if p[1] <= 0:       # %unit_init (0) or a row without a source position (-1): not a line of the text
            return p if p[0] in orig_units else None
        return lmap.get(p, "unmapped")
    out = {"bindings": {}, "calls": set(), "flows": set()}
    for (p, op, name), tgts in obs["bindings"].items():
        q = mp(p)
        if q is None:
            continue
        if moved and nm(name) == moved:
            continue
        ts = set()
        for t in tgts:
            if t[0] == "decl":
                dq = mp(t[1])
                ts.add(("decl", dq, t[2], nm(t[3]) if t[3] else t[3]))
            else:
                ts.add(t)
        out["bindings"].setdefault((q, op, nm(name)), set()).update(ts)
    for c in obs["calls"]:
        m = tuple(mp(x) for x in c)
        if m[1] is None:
            continue
        out["calls"].add(m)
    for f in obs["flows"]:
        m = (mp(f[0]), mp(f[1]))
        out["flows"].add(m)
    return out


def strip_moved(obs, moved):
    if not moved:
        return obs
    out = {"bindings": {k: v for k, v in obs["bindings"].items() if k[2] != moved}, "calls": obs["calls"], "flows": obs["flows"]}
    return out


def oracle(case):
    """case: {"lines": [...], "meta": {...}, "edits": [...]} -> (discrepancies, info)"""
    files = {"main.py": list(case["lines"])}
    if case.get("core"):
        files["core.py"] = list(case["core"])
    meta = {"blocks_now": [tuple(b) for b in case["meta"]["blocks"]]}
    lmap = identity_map(files)
    renames = []
    kinds = []
    f2 = files
    for e in case["edits"]:
        e = tuple(e)
        f2, lmap, ren = apply_edit(f2, lmap, e, meta)
        if ren:
            renames.append(ren)
        kinds.append(e[0])
    changed = {u: "\n".join(ls) for u, ls in f2.items()} != {u: "\n".join(ls) for u, ls in files.items()}
    if not changed:
        return [], {"discard": "edit did not change the text"}
    try:
        o1 = observe(files)
        o2 = observe(f2)
    except SyntaxError as e:
        return [], {"discard": "syntax", "harness_error": "edited project is not valid Python: %s\n%s" % (e, "\n".join(f2.get("main.py", [])))}
    ekind = "+".join(sorted(set(kinds)))
    if "error" in o1 or "error" in o2:
        which = "original" if "error" in o1 else "edited"
        return [((ID, ekind, "analysis-crash", which), "lian fails on the %s project: %s" % (which, (o1.get("error") or o2.get("error"))[-200:]))], {}
    moved = meta.get("moved")
    m2 = map_obs(o2, lmap, renames, moved, tuple(files))
    m1 = strip_moved(o1, moved)
    out = []
    for what in ("calls", "flows"):
        lost = m1[what] - m2[what]
        gained = m2[what] - m1[what]
        if lost:
            out.append(((ID, ekind, what, "lost"), "%s lost after the edit: %s" % (what, sorted(lost, key=str)[:3])))
        if gained:
            out.append(((ID, ekind, what, "gained"), "%s gained after the edit: %s" % (what, sorted(gained, key=str)[:3])))
    b1, b2 = m1["bindings"], m2["bindings"]
    diff = [k for k in set(b1) | set(b2) if b1.get(k) != b2.get(k)]
    if diff:
        k = sorted(diff, key=str)[0]
        out.append(((ID, ekind, "bindings", "changed"), "binding of %s changed: %s -> %s" % (k, sorted(b1.get(k) or [], key=str), sorted(b2.get(k) or [], key=str))))
    info = {"calls": len(m1["calls"]), "flows": len(m1["flows"]), "bindings": len(b1), "kinds": kinds}
    return out, info


def oracle_frontend(case):
    """case: {"lang", "unit", "lines", "edits"}: a core-language program rendered in one of the seven frontends, edited by
    blank / comment lines and consistent renamings only -> (discrepancies, info)"""
    lang, unit = case["lang"], case["unit"]
    files = {unit: list(case["lines"])}
    lmap = identity_map(files)
    renames, kinds = [], []
    f2 = files
    for e in case["edits"]:
        e = tuple(e)
        f2, lmap, ren = apply_edit(f2, lmap, e, {})
        if ren:
            renames.append(ren)
        kinds.append(e[0])
    if f2[unit] == files[unit]:
        return [], {"discard": "edit did not change the text"}
    try:
        o1 = observe(files, lang, core=True)
        o2 = observe(f2, lang, core=True)
    except SyntaxError as e:
        return [], {"discard": "syntax", "harness_error": "edited %s program is not valid: %s" % (lang, e)}
    ekind = "+".join(sorted(set(kinds)))
    if "error" in o1 and "error" in o2:
        return [], {"discard": "lian fails on both versions (%s)" % lang}
    if "error" in o1 or "error" in o2:
        which = "original" if "error" in o1 else "edited"
        return [((ID, lang, ekind, "analysis-crash", which), "lian fails on the %s %s program only: %s" % (
            which, lang, (o1.get("error") or o2.get("error"))[-200:]))], {}
    m2 = map_obs(o2, lmap, renames, None, (unit,))
    out = []
    for what in ("calls", "flows"):
        lost, gained = o1[what] - m2[what], m2[what] - o1[what]
        if lost:
            out.append(((ID, lang, ekind, what, "lost"), "%s: %s lost after the edit: %s" % (lang, what, sorted(lost, key=str)[:3])))
        if gained:
            out.append(((ID, lang, ekind, what, "gained"), "%s: %s gained after the edit: %s" % (lang, what, sorted(gained, key=str)[:3])))
    b1, b2 = o1["bindings"], m2["bindings"]
    diff = [k for k in set(b1) | set(b2) if b1.get(k) != b2.get(k)]
    if diff:
        k = sorted(diff, key=str)[0]
        out.append(((ID, lang, ekind, "bindings", "changed"), "%s: binding of %s changed: %s -> %s" % (
            lang, k, sorted(b1.get(k) or [], key=str), sorted(b2.get(k) or [], key=str))))
    return out, {"calls": len(o1["calls"]), "flows": len(o1["flows"]), "bindings": len(b1), "kinds": kinds, "lang": lang}


CORPUS_EXT = {"python": ".py", "javascript": ".js", "typescript": ".ts", "java": ".java", "go": ".go", "c": ".c"}


def corpus_files():
    """small files of the repository's own per-language corpora: [(lang, path relative to the repository)]"""
    out = []
    root = os.path.join(common.REPO, "tests")
    for dp, dns, fns in os.walk(root):
        dns[:] = sorted(d for d in dns if d not in ("real_cases", "benchmarks", "__pycache__", "lian_workspace"))
        for fn in sorted(fns):
            for lang, ext in CORPUS_EXT.items():
                if fn.endswith(ext):
                    path = os.path.join(dp, fn)
                    try:
                        if 40 <= os.path.getsize(path) <= 2500:
                            out.append((lang, os.path.relpath(path, common.REPO)))
                    except OSError:
                        pass
    return out


def corpus_case(lang, rel, edit_kind):
    """A corpus file with one blank or comment line put in front of it (every position shifts by one)."""
    with open(os.path.join(common.REPO, rel), encoding="utf-8", errors="replace") as f:
        lines = f.read().rstrip("\n").split("\n")
    unit = lianrun.LANG_FILE[lang]
    text = "" if edit_kind == "blank" else COMMENT.get(lang, "// note a.b = 1;")
    return {"flavour": "frontend", "lang": lang, "unit": unit, "lines": lines, "edits": [["top", unit, text]], "corpus": rel}


COMMENT = {"python": "# note a.b = 1", "php": "// note $a = 1;"}
RENAMEABLE = re.compile(r"\b(f[0-9]+|p[1-9][0-9]*|[viw][0-9]+)\b")     # not p0 (the source rule names it), not out / main


def frontend_case_strategy():
    from hypothesis import strategies as st
    from harness import gen_core

    @st.composite
    def cases(draw):
        prog = draw(gen_core.programs())
        lang = draw(st.sampled_from(gen_core.LANGS))
        lines = gen_core.render(lang, prog).rstrip("\n").split("\n")
        unit = lianrun.LANG_FILE[lang]
        names = sorted(set(RENAMEABLE.findall("\n".join(lines))))
        edits, renamed, fresh_n = [], set(), 0
        for _ in range(draw(st.integers(1, 3))):
            k = draw(st.sampled_from(["blank", "comment", "rename", "rename"]))
            if k in ("blank", "comment"):
                # never before the first line (<?php, package main)
                at = draw(st.integers(1, max(1, len(lines))))
                edits.append(("blank", unit, at, "" if k == "blank" else COMMENT.get(lang, "// note a.b = 1;")))
            else:
                pool = [n for n in names if n not in renamed]
                if not pool:
                    continue
                old = pool[draw(st.integers(0, len(pool) - 1))]
                renamed.add(old)
                fresh_n += 1
                edits.append(("rename", old, "zq%d" % fresh_n))
        if not edits:
            edits.append(("blank", unit, 1, ""))
        return {"flavour": "frontend", "lang": lang, "unit": unit, "lines": lines, "edits": [list(e) for e in edits]}
    return cases()


# ---------------------------------------------------------------------------------------------
# generation of cases

def case_strategy():
    from hypothesis import strategies as st

    @st.composite
    def cases(draw):
        lines, meta = gen_base(draw, st)
        names = meta["names"]
        core = None
        if draw(st.integers(0, 2)) == 0:
            # two-file base: the last function (it calls no other) lives in core.py and main imports it
            blocks = [b for b in scan_blocks(lines) if lines[b[0]].startswith("def ")]
            if len(blocks) >= 2:
                b0, b1 = blocks[-1]
                fname = lines[b0].split("(")[0][4:]
                core = lines[b0:b1]
                lines = ["from core import %s" % fname] + lines[:b0] + lines[b1:]
        n_edits = draw(st.integers(1, 3))
        edits = []
        fresh_n = 0
        renamed = set()
        if core is not None and draw(st.integers(0, 1)) == 0:
            # the imported function itself gets the fresh name, underscore-prefixed in half of the cases (deliberate: one
            # function among ten names is picked too rarely by the general rename below)
            renamed.add(fname)
            edits.append(("rename", fname, draw(st.sampled_from(["zz_core0", "_zz_core0"]))))
        for _ in range(n_edits):
            k = draw(st.sampled_from(["blank", "blank", "rename", "rename", "noop", "swap", "move", "rename_in", "rename_in", "move_core"]))
            if k == "blank":
                edits.append(("blank", "main.py", draw(st.integers(0, 60)), draw(st.sampled_from(["", "# comment", "# a.b.c x = 1"]))))
            elif k == "noop":
                fresh_n += 1
                edits.append(("noop", "main.py", draw(st.integers(0, 60)), draw(st.sampled_from(["pass", "unused_zz%d = 0" % fresh_n]))))
            elif k == "rename":
                pool = [n for grp in ("locals", "params", "funcs", "classes", "methods") for n in names[grp] if n not in renamed]
                if not pool:
                    continue
                old = pool[draw(st.integers(0, len(pool) - 1))]
                fresh_n += 1
                renamed.add(old)
                # a fresh name may start with an underscore (no meaning in Python outside `import *`, which the bases do
                # not use): seed C12-m3 hid such names from importers
                edits.append(("rename", old, draw(st.sampled_from(["zz_fresh%d", "zz_fresh%d", "_zz_fresh%d"])) % fresh_n))
            elif k == "rename_in":
                pool = [x for x in names["shadow"] if x not in renamed]
                if not pool:
                    continue
                fn, old = pool[draw(st.integers(0, len(pool) - 1))]
                fresh_n += 1
                renamed.add((fn, old))
                edits.append(("rename_in", fn, old, "zz_fresh%d" % fresh_n))
            elif k == "move_core":
                if core is not None and not any(e[0] == "move" for e in edits):
                    edits.append(("move", 0, "core.py"))
            elif k == "swap":
                edits.append(("swap", draw(st.integers(0, 5))))
            elif k == "move" and not any(e[0] == "move" for e in edits):
                edits.append(("move", draw(st.integers(0, 5))))
        if not edits:
            edits.append(("blank", "main.py", 0, "# comment"))
        # a move must come last among structure edits (swap uses block positions of main)
        edits.sort(key=lambda e: 1 if e[0] == "move" else 0)
        # a function renamed before "rename_in" would not be found by name: scoped renamings come first
        edits.sort(key=lambda e: 0 if e[0] == "rename_in" else 1 if e[0] != "move" else 2)
        case = {"lines": lines, "meta": {"blocks": meta["blocks"]}, "edits": [list(e) for e in edits]}
        if core is not None:
            case["core"] = core
        return case
    return cases()


def shard(arg):
    seed, n_examples = arg
    import hypothesis
    from hypothesis import settings, HealthCheck
    col = Collector()

    @hypothesis.seed(seed)
    @settings(max_examples=n_examples, deadline=None, database=None, derandomize=False, report_multiple_bugs=False,
              suppress_health_check=list(HealthCheck), phases=[hypothesis.Phase.generate])
    @hypothesis.given(case_strategy())
    def prop(case):
        ds, info = oracle(case)
        col.evaluations += 1
        if "discard" in info:
            col.discards[info["discard"]] += 1
            if "harness_error" in info:
                col.error(info["harness_error"])
            return
        for k in info.get("kinds", []):
            col.labels["edit:" + k] += 1
        if info.get("calls", 0) >= 1 and (info.get("flows", 0) >= 1 or info.get("bindings", 0) >= 3):
            col.nontriv(case)
            if len(col.samples) < 2:
                col.sample(case)
        if info.get("flows", 0) >= 1:
            col.labels["base_has_flow"] += 1
        for sig, what in ds:
            col.discrepancy(sig, what, case)
    prop()
    lianrun.cleanup_scratch()
    return col


def frontend_shard(arg):
    seed, n_examples = arg
    import hypothesis
    from hypothesis import settings, HealthCheck
    col = Collector()

    @hypothesis.seed(seed)
    @settings(max_examples=n_examples, deadline=None, database=None, derandomize=False, report_multiple_bugs=False,
              suppress_health_check=list(HealthCheck), phases=[hypothesis.Phase.generate])
    @hypothesis.given(frontend_case_strategy())
    def prop(case):
        ds, info = oracle_frontend(case)
        col.evaluations += 1
        if "discard" in info:
            col.discards[info["discard"]] += 1
            if "harness_error" in info:
                col.error(info["harness_error"])
            return
        col.labels["frontend:" + case["lang"]] += 1
        for k in info.get("kinds", []):
            col.labels["frontend-edit:" + k] += 1
        if info.get("bindings", 0) >= 3:
            col.nontriv(case)
        if info.get("flows", 0) >= 1:
            col.labels["frontend_base_has_flow"] += 1
        if info.get("calls", 0) >= 1:
            col.labels["frontend_base_has_call_path"] += 1
        for sig, what in ds:
            col.discrepancy(sig, what, case)
    prop()
    lianrun.cleanup_scratch()
    return col


def corpus_shard(items):
    col = Collector()
    for lang, rel, kind in items:
        case = corpus_case(lang, rel, kind)
        try:
            ds, info = oracle_frontend(case)
        except Exception as e:
            col.discards["corpus file not analysable by the harness (%s)" % type(e).__name__] += 1
            continue
        col.evaluations += 1
        if "discard" in info:
            col.discards["corpus: " + info["discard"]] += 1
            continue
        col.labels["corpus:" + lang] += 1
        if info.get("bindings", 0) >= 3:
            col.nontriv(["corpus", rel, kind])
        slim = {"flavour": "frontend", "lang": lang, "unit": case["unit"], "lines": case["lines"], "edits": case["edits"], "corpus": rel}
        for sig, what in ds:
            col.discrepancy(sig, what, slim)
    lianrun.cleanup_scratch()
    return col


def check_case(case):
    ds, info = oracle_frontend(case) if case.get("flavour") == "frontend" else oracle(case)
    if "harness_error" in info:
        return [((ID, "harness"), info["harness_error"])]
    return ds


def replay(path):
    rec = common.load_replay(path)
    ds = check_case(rec["case"])
    rc = 0
    want = tuple(rec.get("signature") or ())
    for sig, what in ds:
        kind, _ = common.classify(ID, sig)
        if kind == "known" and not os.environ.get("VERIF_CONFIRM"):
            print("KNOWN-FINDING: property=%s %s" % (ID, what))
            continue
        if os.environ.get("VERIF_CONFIRM") and want and tuple(sig) != want:
            continue
        print("VIOLATION property=%s replay=%s" % (ID, path))
        print("  signature=%s %s" % (list(sig), what))
        rc = 1
    if rc == 0:
        print("%s replay %s: no unlisted discrepancy" % (ID, path))
    return rc


def main(tier, seed, t0):
    col = Collector()
    for path in common.replay_files(ID):
        rec = common.load_replay(path)
        for sig, what in check_case(rec["case"]):
            col.discrepancy(sig, what, rec["case"])
        col.evaluations += 1
        col.labels["replayed"] += 1
    total = 640 if tier == "quick" else 15000
    nsh = common.NCPU * (1 if tier == "quick" else 4)
    col.merge(common.run_shards(shard, [(common.shard_seed(seed, i), total // nsh + 1) for i in range(nsh)]))
    # the same relation in every frontend: core-language programs, blank / comment lines and consistent renamings
    ftotal = 480 if tier == "quick" else 12000
    col.merge(common.run_shards(frontend_shard, [(common.shard_seed(seed, 1000 + i), ftotal // nsh + 1) for i in range(nsh)]))
    # corpus files with one line put in front (a seeded sample in the quick tier, all of them in the thorough tier)
    allf = corpus_files()
    import random as _random
    rnd = _random.Random(common.shard_seed(seed, 2000))
    rnd.shuffle(allf)
    chosen = allf[:96] if tier == "quick" else allf
    items = [(lang, rel, "blank" if (i + seed) % 2 else "comment") for i, (lang, rel) in enumerate(chosen)]
    if items:
        k = min(common.NCPU, len(items))
        col.merge(common.run_shards(corpus_shard, [items[i::k] for i in range(k)]))
    col.extra["corpus_files_available"] += len(allf)
    lianrun.cleanup_scratch()
    return common.finish(ID, tier, seed, col, t0, RULE, ASSUMPTIONS)
