"""C18 — running lian never alters inputs and writes only inside its workspace.

Enumeration of filesystem layouts (inputs x workspace option x placement x previous workspace state x flags x
sub-command), each run through the real CLI in a subprocess inside a per-case sandbox with a full
before/after snapshot (harness/c18_fs.py).  Quick = a pairwise covering array + hashed extra cases; thorough =
the full product.
"""
import itertools
import os
import tempfile

from harness import common
from harness import c18_fs as fs
from harness.common import Collector

ID = "C18"

RULE = ("layouts built inside a fresh per-case sandbox: inputs {directory tree of 3 .py files + .txt + .js + file symlink "
        "+ directory-cycle symlink + symlink to a 70 kB file outside the input; single file; both} x placement of the "
        "workspace {disjoint, inside the input directory, containing the input, identical to the input directory} x "
        "workspace option {none (default name in cwd), default name being a symlink, custom name / name containing "
        "'lian_workspace' each spelled relative, '../proj/x', absolute (cwd elsewhere), through a symlink} x previous "
        "state {absent, empty, foreign files + stale lian sub-directories} x flags {none, -f, -f -q, -inc, -f -inc} "
        "x sub-command {lang (with mock externs), semantic --nomock, run --nomock --graph}; invalid combinations "
        "(file input containing a workspace, absent directory that must hold an input or be a symlink target; the "
        "flag-less mode is paired with the first sub-command only) are not in the product. Each case = one CLI subprocess (cwd, HOME, TMPDIR in the sandbox) with snapshots "
        "(path, type, size, sha256, mode, link target) of the whole sandbox before and after. Quick: greedy all-pairs "
        "covering array over the 6 dimensions (order varies with the seed) + 38 further -f / -f -q cases in hashed order; "
        "thorough: the full product in hashed order (stopped, and then not reported exhaustive, if a 15 min budget is exceeded). Non-trivial = anything but {disjoint, not pre-existing, absolute custom path or no option}, and "
        "not an unforced non-incremental run on an absent workspace (lian refuses those before doing anything); "
        "cases are distinct by construction.")

ASSUMPTIONS = [
    "W, 'the workspace directory', is the directory the user names: the -w argument X itself (lian works in "
    "X/lian_workspace unless X already contains that substring), or ./lian_workspace when no -w is given; a "
    "symlinked W stands for the directory it points to (the link itself must stay unchanged)",
    "inputs lying inside W may be deleted by --force (they are previous contents of the workspace); inside W "
    "anything may be created or overwritten; without --force nothing that existed in W may disappear, except under "
    "<effective workspace>/bak, lian's own rotating backup of incremental mode",
    "bounded copying = at most one copy per eligible input file appears under <workspace>/src, the directory depth "
    "under W grows by at most the depth of the inputs + 6, the bytes under W by at most inputs + 1.5 MB (+ the "
    "previous contents once more for the incremental backup)",
    "an unhandled exception counts only if the same command and flags do not end with the same exception on the "
    "trivial placement (e.g. -inc currently always dies in UnitLevelIncrementalChecker: not a placement defect)",
    "per-user caches of third-party libraries are not lian's output: MPLCONFIGDIR points to a harness directory "
    "(matplotlib, imported by lian.common_structs, would otherwise write its font cache under $HOME/.cache); HOME, "
    "TMPDIR, XDG_* point into the sandbox and anything appearing there IS reported; writes outside the sandbox "
    "by absolute path (e.g. into the lian checkout) are invisible to the snapshot",
    "language python only; the big *_from_code.yaml rule files are replaced by an empty list and a 4-file settings "
    "directory is passed with --default-settings (start-up cost), it lies outside W and is checked for changes",
]

DIMS = ["inp", "place", "wsopt", "pre", "mode", "variant"]


def all_cases():
    out = []
    for inp, place, (name, spell), pre, mode, variant in itertools.product(
            fs.INPS, fs.PLACES, fs.WSOPTS, fs.PRES, fs.MODES, fs.VARIANTS):
        c = {"inp": inp, "place": place, "name": name, "spell": spell, "pre": pre, "mode": mode, "variant": variant}
        if fs.valid(c):
            out.append(c)
    return out


def _dimvals(c):
    return (c["inp"], c["place"], c["name"] + "/" + c["spell"], c["pre"], c["mode"], c["variant"])


def covering_array(cases, seed, extra):
    """Greedy all-pairs selection; ties broken by a seed-dependent hash order (deterministic, no RNG)."""
    order = sorted(cases, key=lambda c: common.jhash([seed, fs.case_key(c)]))
    vals = [_dimvals(c) for c in order]
    pair_sets = []
    uncovered = set()
    for v in vals:
        ps = frozenset((i, v[i], k, v[k]) for i in range(len(v)) for k in range(i + 1, len(v)))
        pair_sets.append(ps)
        uncovered |= ps
    total_pairs = len(uncovered)
    chosen = []
    taken = set()
    while uncovered:
        best, best_gain = None, 0
        for idx, ps in enumerate(pair_sets):
            if idx in taken:
                continue
            g = len(ps & uncovered)
            if g > best_gain:
                best, best_gain = idx, g
        if best is None:
            break
        taken.add(best)
        chosen.append(order[best])
        uncovered -= pair_sets[best]
    n_array = len(chosen)
    # extra cases: forced, non-incremental runs only (the ones that get past the preparation step into the analysis)
    for idx, c in enumerate(order):
        if len(chosen) >= n_array + extra:
            break
        if idx not in taken and c["mode"] in ("f", "fq"):
            chosen.append(c)
    return chosen, n_array, total_pairs


# ---------------------------------------------------------------------------------------------
# one case

_baseline_cache = {}


def _default_name():
    from lian.config import config
    return config.DEFAULT_WORKSPACE


def execute(case, mpl_dir, col=None):
    """Build, run, snapshot, judge one case.  Returns (discrepancies, stats, code).  Harness problems raise."""
    S = fs.new_sandbox()
    try:
        lay = fs.build(S, case, _default_name())
        before = fs.snapshot(S)
        code, output = fs.run_lian(lay, mpl_dir)
        after = fs.snapshot(S)

        def baseline_crash():
            key = (case["mode"], case["variant"])
            if key not in _baseline_cache:
                base = {"inp": "dir", "place": "disjoint", "name": "custom", "spell": "abs", "pre": "absent",
                        "mode": case["mode"], "variant": case["variant"]}
                if fs.case_key(base) == fs.case_key(case):
                    _baseline_cache[key] = fs.crash_signature(output)
                else:
                    S2 = fs.new_sandbox()
                    try:
                        lay2 = fs.build(S2, base, _default_name())
                        _c, out2 = fs.run_lian(lay2, mpl_dir)
                        _baseline_cache[key] = fs.crash_signature(out2)
                    finally:
                        if not fs.remove_tree(S2):
                            raise RuntimeError("could not remove sandbox %s" % S2)
            return _baseline_cache[key]

        ds, stats = fs.oracle(ID, case, lay, before, after, code, output, baseline_crash)
        stats["code"] = code
        stats["tail"] = output[-300:] if isinstance(output, str) else ""
        return ds, stats
    finally:
        if not fs.remove_tree(S):
            raise RuntimeError("could not remove sandbox %s" % S)


def record(col, case, ds, stats):
    col.case()
    if not fs.is_trivial(case):
        col.nontrivial_enum += 1
        col.label("nontrivial")
    col.label("inp:" + case["inp"], "place:" + case["place"], "ws:%s/%s" % (case["name"], case["spell"]),
              "pre:" + case["pre"], "mode:" + case["mode"], "cmd:" + case["variant"],
              "relation:" + stats["relation"])
    code = stats["code"]
    if stats["crash"]:
        col.label("outcome:traceback")
    elif code == 0:
        col.label("outcome:completed")
    elif "[ERROR]" in stats["tail"]:
        col.label("outcome:deliberate-error-exit")
    else:
        col.label("outcome:exit-%s" % code)
    if stats["new_src_files"]:
        col.label("copied-sources")
    col.sample({"case": case, "exit": code, "new_src_files": stats["new_src_files"], "relation": stats["relation"]})
    for sig, what in ds:
        col.discrepancy(sig, what, case)


def shard(arg):
    mpl_dir, cases = arg
    col = Collector()
    for case in cases:
        try:
            ds, stats = execute(case, mpl_dir)
        except Exception as e:        # harness problem (safety assertion, sandbox not removable, ...)
            import traceback
            col.error("case %s: %s\n%s" % (fs.case_key(case), e, traceback.format_exc()[-1500:]))
            continue
        record(col, case, ds, stats)
    return col


# ---------------------------------------------------------------------------------------------

def _mpl_dir():
    return tempfile.mkdtemp(prefix=fs.PREFIX + "mpl-")


def replay(path):
    rec = common.load_replay(path)
    mpl = _mpl_dir()
    try:
        ds, stats = execute(rec["case"], mpl)
    finally:
        fs.remove_tree(mpl)
    if ds:
        new = [(s, w) for s, w in ds if common.classify(ID, tuple(s))[0] != "known"]
        if not new and not os.environ.get("VERIF_CONFIRM"):
            for s, w in ds:
                print("KNOWN-FINDING: property=%s %s" % (ID, w))
            return 0
        s, w = (new or ds)[0]
        print("VIOLATION property=%s replay=%s" % (ID, path))
        print("  signature=%s %s" % (list(s), w))
        return 1
    print("%s replay %s: holds (exit %s)" % (ID, path, stats["code"]))
    return 0


def main(tier, seed, t0):
    import time
    col = Collector()
    mpl = _mpl_dir()
    budget = float(os.environ.get("VERIF_C18_BUDGET_S", "900"))     # thorough must end within 20 min
    try:
        cases = all_cases()
        replays = [common.load_replay(p)["case"] for p in common.replay_files(ID)]
        if tier == "quick":
            chosen, n_array, total_pairs = covering_array(cases, seed, extra=38)
            cov = {"product_size": len(cases), "covering_array_cases": n_array, "value_pairs_covered": total_pairs,
                   "extra_hashed_cases": len(chosen) - n_array}
        else:
            # hashed order: if the time budget stops the run early, what was run is an even sample
            chosen = sorted(cases, key=lambda c: common.jhash([seed, fs.case_key(c)]))
            cov = {"product_size": len(cases)}
        todo = replays + chosen
        per = 1 if len(todo) <= 8 * common.NCPU else 2
        args = [(mpl, todo[i:i + per]) for i in range(0, len(todo), per)]
        batch = max(1, common.NCPU) * 8
        done = 0
        for i in range(0, len(args), batch):
            if time.time() - t0 > budget:
                break
            part = args[i:i + batch]
            col.merge(common.run_shards(shard, part))
            done += sum(len(a[1]) for a in part)
        col.labels["replayed"] += len(replays)
        skipped = len(todo) - done
        if skipped:
            col.discards["not-run:time-budget"] += skipped
        exhaustive = tier != "quick" and skipped == 0
        if tier != "quick":
            cov["explanation"] = ("exhaustive over the stated finite product of layout dimensions only" if exhaustive else
                                  "time budget of %d s reached: %d of %d configurations run (hashed order)" % (budget, done, len(todo)))
        col.extra["lian_subprocesses"] += done
    finally:
        fs.remove_tree(mpl)
    left = [n for n in os.listdir(tempfile.gettempdir()) if n.startswith(fs.PREFIX)]
    if left:
        col.notes.append("%d %s* directories present in the temp dir after the run (another C18 run in progress?)"
                         % (len(left), fs.PREFIX))
    return common.finish(ID, tier, seed, col, t0, RULE, ASSUMPTIONS, exhaustive=exhaustive, extra_coverage=cov)
