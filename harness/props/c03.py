"""C03 — emitted GIR is structurally well-formed for every input in every language.

Corpus files, template-generated valid programs, Hypothesis-chosen byte-level mutants of both, and
multi-file projects are lowered with the real frontend (tree-sitter -> <lang>_parser -> event handlers ->
flattening -> add_main_func); the emitted table is checked with the validity predicate of
harness/c03_wf.py and any escaping exception other than SystemExit is a crash discrepancy.
"""
import os
import re
import signal
import sys

from harness import common
from harness.common import Collector
from harness import c03_gen as G
from harness import c03_wf as W

ID = "C03"

RULE = ("one case = one source text (or one 2-4 file project) lowered by the real frontend. Texts: every file of a "
        "supported extension under <repo>/tests (c go java javascript php python typescript; .ets/.cjs/.mjs/.h as the "
        "nearest language), valid programs composed from ~900 per-language statement/declaration templates (every template "
        "is checked against the tree-sitter grammar to be error free; unique 9xxxx literals give the source order), and "
        "byte-level mutants of corpus files (<= 12 kB) and of generated programs: delete range, insert token from a "
        "per-language dictionary, transpose, truncate, duplicate/delete/swap lines, splice two files, replace byte "
        "(quick: 1-2 operators per case; thorough: 1-5 and additionally raw byte insertion and token repetition). "
        "All choices are made by a random.Random that Hypothesis seeds per case (st.randoms), i.e. a pure function of "
        "VERIF_SEED. Projects: 2-4 such files of mixed languages, (a) lowered unit after unit with the start ids "
        "threaded through the real LangAnalysis.adjust_node_id, (b) run through the real `lang` sub-command and read "
        "back from frontend/gir.bundle*. Thorough tier adds one atheris (libFuzzer) campaign of 60000 runs per language. "
        "Non-trivial = the text differs from every corpus file AND lowering produced >= 1 GIR row or an exception "
        "(projects: >= 2 units with GIR); distinct by hash of (language, text).")

ASSUMPTIONS = [
    "cpp.so and csharp.so are empty on this image: C++ and C# are out of scope; ruby/llvm/smali/rust are not among the seven languages of the property's corpus",
    "default (non-strict) parse mode, default event handlers only, no --incremental",
    "a SystemExit raised by util.error_and_quit / Parser.syntax_error is a deliberate rejection (counted) — except on a text that tree-sitter parses without any ERROR/MISSING node, where it is reported: it ends the lang phase for every other file of the project as well",
    "'no GIR for that file' is a valid outcome for any text (the property says so); e.g. c_parser drops every C file whose first bytes are `//` (is_comment looks at the node text) — observed, not a C03 violation",
    "clause 3 converse (attribute -> block) is checked only for attribute names that are bodies in every producer and consumer: " + " ".join(sorted(W.ALWAYS_BODY_ATTRS)),
    "class-initialiser blocks = blocks of " + " ".join(sorted(W.CLASS_LIKE)),
    "the source-order clause is checked on generated programs only (order of the 9xxxx literals among the direct children of %unit_init); for every input the rows of %unit_init are compared, in order, with the flattened table recorded just before add_main_func ran (a recorder registered in front of it)",
    "texts that are not valid UTF-8 are read by lian with errors=strict, fail to load and yield no GIR (valid outcome)",
    "recursion limit during lowering is pinned to (current depth + 950) so that Hypothesis runs and replays agree",
    "a case running longer than the per-case alarm (quick 30 s, thorough 180 s, corpus files in the thorough tier 900 s) is discarded and counted; termination is C13's subject",
    "an attribute value that is a container (tuple/list/dict) is reported (clause '0:attribute-value-not-storable'): the loader cannot write a table with such a row and leaves frontend/gir.bundle* empty for the whole project (reproduced through the CLI)",
    "module state that lian keeps between files (the mutable default lists of common_parser.Parser.parse) is emptied before every case, never inside a multi-file case",
    "crash signatures: (class, language, exception type, innermost lian function that is not a generic common_parser helper); class = crash (unmodified corpus/generated/hand-written text without syntax error: listed exactly, never wildcarded) | crash-clean-mutant (mutated text that tree-sitter still parses without error) | crash-broken-input (text with syntax errors); since lian's fix db0b574 a frontend exception on one file yields no GIR for that file (a valid outcome), so no crash bucket is expected any more; the buckets met before the repair are listed as fixed entries with their replays and any crash that escapes again is a VIOLATION",
]

MAX_REPORTED = 10

MARKER_RE = re.compile(r"(?<![0-9])9[0-9]{4}(?![0-9])")


# ---------------------------------------------------------------------------------------------
# instrumented lowering

class _Timeout(BaseException):
    pass


_ctx = {"em": None, "pre": None, "pid": None, "adjust": None}


def _setup():
    """One EventManager per process; a recorder in front of add_main_func keeps the flattened table as it
    was before the GIR_LIST_GENERATED handlers ran (instrumentation by registration, no source change)."""
    if _ctx["em"] is not None and _ctx["pid"] == os.getpid():
        return _ctx
    from harness import lianrun
    lianrun._import()
    from lian.events.event_manager import EventManager
    from lian.config import config
    from lian.lang.lang_analysis import LangAnalysis
    opts = lianrun.default_options(lianrun.ALL_LANGS)
    em = EventManager(opts)

    def recorder(data):
        try:
            _ctx["pre"] = [(r.get("stmt_id"), r.get("parent_stmt_id"), r.get("operation")) for r in data.in_data]
        except Exception:
            _ctx["pre"] = None
        return None

    em.flattened_gir_list_handlers.insert(0, ([config.ANY_LANG], recorder))
    _ctx.update(em=em, pid=os.getpid(), lianrun=lianrun,
                adjust=lambda n: LangAnalysis.adjust_node_id(None, n))
    return _ctx


def _depth():
    f = sys._getframe()
    n = 0
    while f is not None:
        n += 1
        f = f.f_back
    return n


def _alarm(signum, frame):
    raise _Timeout()


def reset_shared_parser_state():
    """common_parser.Parser.parse(self, node, statements=[], replacement=[]) has mutable default arguments: what
    handlers append to them survives the file, the project and — in a harness process — the case.  Every case
    starts from the state of a fresh process (empty lists), so that a case is reproducible on its own; inside a
    multi-file case the lists are left alone, exactly as inside one `lian` run."""
    from lian.lang import common_parser
    for d in (common_parser.Parser.parse.__defaults__ or ()):
        if isinstance(d, list):
            del d[:]


def lower_one(data, lang, start_id=120, module_id=101, fname=None, timeout=30, reset=True):
    """Lower bytes `data`.  Returns dict(outcome, next_id, rows, pre, exc)."""
    ctx = _setup()
    lianrun = ctx["lianrun"]
    ctx["pre"] = None
    if reset:
        reset_shared_parser_state()
    old_limit = sys.getrecursionlimit()
    use_alarm = timeout is not None        # (the atheris driver leaves SIGALRM to libFuzzer)
    if use_alarm:
        old_handler = signal.signal(signal.SIGALRM, _alarm)
        signal.setitimer(signal.ITIMER_REAL, timeout, 2.0)   # repeats: lian has bare `except:` clauses
    res = {"outcome": None, "next_id": start_id, "rows": None, "pre": None, "exc": None}
    devnull = None
    old_stderr, old_stdout = sys.stderr, sys.stdout
    try:
        devnull = open(os.devnull, "w")
        sys.stderr = sys.stdout = devnull          # util.error prints for every broken input
        sys.setrecursionlimit(_depth() + 950)
        try:
            next_id, rows = lianrun.lower(data, lang, fname=fname, start_id=start_id, module_id=module_id,
                                          event_manager=ctx["em"])
            if use_alarm:
                signal.setitimer(signal.ITIMER_REAL, 0)
            res.update(outcome="rows" if rows else "none", next_id=next_id, rows=rows if rows else None, pre=ctx["pre"])
        except _Timeout:
            res["outcome"] = "timeout"
        except SystemExit as e:
            if use_alarm:
                signal.setitimer(signal.ITIMER_REAL, 0)
            res.update(outcome="rejected", exc=e)
        except KeyboardInterrupt:
            raise
        except BaseException as e:      # noqa: B902 — every escaping exception is the subject of clause 5
            if use_alarm:
                signal.setitimer(signal.ITIMER_REAL, 0)
            res.update(outcome="crash", exc=e)
    finally:
        if use_alarm:
            signal.setitimer(signal.ITIMER_REAL, 0)
            signal.signal(signal.SIGALRM, old_handler)
        sys.setrecursionlimit(old_limit)
        sys.stderr, sys.stdout = old_stderr, old_stdout
        if devnull:
            devnull.close()
    return res


_ts_parsers = {}


def syntactically_valid(data, lang):
    """True iff tree-sitter (the grammar lian itself loads) parses the text without ERROR / MISSING nodes."""
    ctx = _setup()
    try:
        text = data.decode("utf-8")
    except UnicodeDecodeError:
        return False
    if lang not in _ts_parsers:
        from lian.config import lang_config
        from lian.lang.lang_analysis import GIRParser
        gp = GIRParser(ctx["lianrun"].default_options(ctx["lianrun"].ALL_LANGS), ctx["em"], None, "/")
        for l in lang_config.LANG_TABLE:
            if l.name == lang:
                _ts_parsers[lang] = gp.obtain_ast_parser(l)
    tree = _ts_parsers[lang].parse(text.encode("utf-8"))
    return not tree.root_node.has_error


PRISTINE_ORIGINS = ("corpus", "generated", "hand")


def _crash_discrepancy(data, lang, exc, origin="mutant"):
    """Three root-cause classes, kept apart even inside the same handler function:
      crash               the text is an unmodified corpus file / generated program / hand-written program and
                          tree-sitter parses it without error: the handler is wrong for a construct of the language;
      crash-clean-mutant  a MUTATED text that tree-sitter happens to parse without error (exotic but error-free
                          trees, typically comments or parentheses in places no handler expects);
      crash-broken-input  a text with syntax errors: the handler trusts a child that tree-sitter leaves out of
                          ERROR/MISSING sub-trees.
    The first class is finite (corpus + templates); the two others had a long tail of rarely reached handlers (about
    one new bucket per 300 000 mutants after 1.5 million).  Since lian's repair db0b574 (a frontend exception on one
    file yields no GIR for that file) none of them escapes any more; known_findings.json keeps the buckets met before
    the repair as fixed entries, without wildcards."""
    s = W.crash_signature(lang, exc)
    if s[-1] == "?":
        return None
    if ":" in s[3] or (s[3] == "TypeError" and str(exc).startswith("descriptor 'append' for 'list' objects")):
        # decided by the code alone (a method that does not exist, the class `list` passed as a list): one
        # root cause whatever the input looks like
        return s, "%s: %s" % (lang, W.crash_text(exc))
    if syntactically_valid(data, lang):
        if origin in PRISTINE_ORIGINS:
            return s, "%s (unmodified %s text without syntax error): %s" % (lang, origin, W.crash_text(exc))
        s = (s[0], "crash-clean-mutant") + tuple(s[2:])
        return s, "%s (mutated text, no syntax error): %s" % (lang, W.crash_text(exc))
    s = (s[0], "crash-broken-input") + tuple(s[2:])
    return s, "%s (input has syntax errors): %s" % (lang, W.crash_text(exc))


def check_single(data, lang, top_markers=None, start_id=120, timeout=30, lo_hi=True, origin="mutant"):
    """-> (discrepancies [(sig, what)], info dict)"""
    ctx = _setup()
    r = lower_one(data, lang, start_id=start_id, timeout=timeout)
    info = {"outcome": r["outcome"], "rows": len(r["rows"] or ())}
    ds = []
    if r["outcome"] == "crash":
        d = _crash_discrepancy(data, lang, r["exc"], origin)
        if d is None:
            info["harness_error"] = "exception without a lian frame: %r" % (r["exc"],)
        else:
            ds.append(d)
        return ds, info
    if r["outcome"] == "rejected" and syntactically_valid(data, lang):
        # error_and_quit on a text without a single syntax error ends the whole `lang` phase: the other files
        # of the project get no GIR although nothing is wrong with them
        ds.append((W.reject_signature(lang, r["exc"]), "%s: input without syntax errors rejected: %s" % (lang, W.crash_text(r["exc"]))))
        return ds, info
    if r["outcome"] != "rows":
        return ds, info
    rows = r["rows"]
    ds.extend(W.check_storable(rows, lang))
    hi = ctx["adjust"](r["next_id"]) if lo_hi else None
    ds.extend(W.check_unit(rows, lang, start_id if lo_hi else None, hi))
    ds.extend(W.check_main_func(r["pre"], rows, lang))
    if top_markers:
        d, n = check_source_order(rows, lang, top_markers)
        info["order_markers"] = n
        ds.extend(d)
    return ds, info


def check_source_order(rows, lang, top_markers):
    """The 9xxxx literals of unit-level executable statements must appear among the direct children of
    %unit_init in source order."""
    init = [r for r in rows if isinstance(r, dict) and r.get("operation") == "method_decl" and r.get("name") == W.UNIT_INIT]
    if len(init) != 1:
        return [], 0
    body = init[0].get("body")
    want = set(top_markers)
    seen = []
    for r in rows:
        if r.get("parent_stmt_id") != body or r.get("operation") in W.MARKERS:
            continue
        found = []
        for k, v in r.items():
            if isinstance(v, str):
                for m in MARKER_RE.findall(v):
                    m = int(m)
                    if m in want and m not in found:
                        found.append(m)
        for m in sorted(found):
            if m not in seen:
                seen.append((m, r["operation"]))
    nums = [m for m, _ in seen]
    # first occurrences must be increasing
    firsts = []
    for m, op in seen:
        if m not in [x for x, _ in firsts]:
            firsts.append((m, op))
    for (a, opa), (b, opb) in zip(firsts, firsts[1:]):
        if b < a:
            return [(W.sig(lang, "4:unit-init-not-in-source-order", opb),
                     "literal %d (a %s) follows literal %d (a %s) in %s although it precedes it in the source" % (b, opb, a, opa, W.UNIT_INIT))], len(firsts)
    return [], len(firsts)


# ---------------------------------------------------------------------------------------------
# multi-file

def check_threaded(units, timeout=30):
    """units: [(lang, fname, bytes)].  Lower one after the other exactly as LangAnalysis.run threads ids."""
    ctx = _setup()
    adjust = ctx["adjust"]
    ds = []
    info = {"units_with_gir": 0, "outcomes": []}
    module_ids = list(range(101, 101 + len(units)))
    start = adjust(max(module_ids))
    intervals = []
    all_ids = {}
    for k, (unit, mid) in enumerate(zip(units, module_ids)):
        lang, fname, data = unit[:3]
        origin = unit[3] if len(unit) > 3 else "mutant"
        fname = os.path.basename(fname)
        r = lower_one(data, lang, start_id=start, module_id=mid, fname=fname, timeout=timeout, reset=(k == 0))
        info["outcomes"].append(r["outcome"])
        if r["outcome"] == "crash":
            d = _crash_discrepancy(data, lang, r["exc"], origin)
            if d is not None:
                ds.append(d)
            else:
                info["harness_error"] = "exception without a lian frame: %r" % (r["exc"],)
            return ds, info       # LangAnalysis.run would have died here
        if r["outcome"] in ("rejected", "timeout"):
            return ds, info
        nxt = adjust(r["next_id"])
        if r["outcome"] == "rows":
            info["units_with_gir"] += 1
            ds.extend(W.check_unit(r["rows"], lang, start, nxt))
            ds.extend(W.check_main_func(r["pre"], r["rows"], lang))
            ds.extend(W.check_storable(r["rows"], lang))
            ids = [x["stmt_id"] for x in r["rows"] if isinstance(x, dict) and W.is_int(x.get("stmt_id"))]
            if ids:
                intervals.append((min(ids), max(ids), fname, lang))
            for i in set(ids):
                if i in all_ids and all_ids[i] != fname:
                    ds.append(((ID, "struct", "project", "1:stmt-id-in-two-units", "threaded"),
                               "stmt_id %d occurs in %s and in %s" % (i, all_ids[i], fname)))
                    break
                all_ids[i] = fname
        start = nxt
    ds.extend(_interval_overlaps(intervals, "threaded"))
    return _dedup(ds), info


def _interval_overlaps(intervals, how):
    ds = []
    iv = sorted(intervals)
    for a, b in zip(iv, iv[1:]):
        if b[0] <= a[1]:
            ds.append(((ID, "struct", "project", "1:unit-id-ranges-overlap", how),
                       "ids of %s span [%d,%d] and ids of %s span [%d,%d]" % (a[2], a[0], a[1], b[2], b[0], b[1])))
            break
    return ds


def _dedup(ds):
    seen = set()
    out = []
    for s, w in ds:
        if s not in seen:
            seen.add(s)
            out.append((s, w))
    return out


def _rows_from_frame(df):
    """feather table -> list of dicts like the in-memory rows (NaN dropped, integral floats -> int)."""
    import math
    rows = []
    cols = list(df.columns)
    for rec in df.itertuples(index=False, name=None):
        d = {}
        for k, v in zip(cols, rec):
            if v is None:
                continue
            if isinstance(v, float):
                if math.isnan(v):
                    continue
                if v.is_integer():
                    v = int(v)
            elif hasattr(v, "item") and not isinstance(v, (str, bytes)):
                try:
                    v = v.item()
                except Exception:
                    pass
                if isinstance(v, float):
                    if math.isnan(v):
                        continue
                    if v.is_integer():
                        v = int(v)
            d[k] = v
        rows.append(d)
    return rows


def check_project(units, timeout=120):
    """units: [(lang, relative name, bytes)] -> run the real `lang` sub-command on a scratch project and check
    the table it wrote (frontend/gir.bundle*)."""
    ctx = _setup()
    lianrun = ctx["lianrun"]
    ds = []
    info = {"units_with_gir": 0}
    files = {}
    for lang, name, data in (u[:3] for u in units):
        try:
            files[name] = data.decode("utf-8")
        except UnicodeDecodeError:
            files[name] = data.decode("utf-8", "replace")
    langs = ",".join(sorted(set(u[0] for u in units)))
    old_handler = signal.signal(signal.SIGALRM, _alarm)
    signal.setitimer(signal.ITIMER_REAL, timeout, 2.0)
    old_limit = sys.getrecursionlimit()
    res = None
    reset_shared_parser_state()
    try:
        try:
            sys.setrecursionlimit(_depth() + 950 + 20)
            res = lianrun.analyze(files, lang=langs, sub_command="lang", capture_flows=False)
        except _Timeout:
            info["outcome"] = "timeout"
            return ds, info
        finally:
            signal.setitimer(signal.ITIMER_REAL, 0)
            signal.signal(signal.SIGALRM, old_handler)
            sys.setrecursionlimit(old_limit)
        exc = res.exc
        if isinstance(exc, _Timeout):
            info["outcome"] = "timeout"
            return ds, info
        if exc is not None and not isinstance(exc, SystemExit):
            # attribute the crash to the unit that causes it, with the same signature as a single-file case
            attributed = False
            for u in units:
                lang, name, data = u[:3]
                d1, _ = check_single(data, lang, timeout=timeout, lo_hi=False, origin=u[3] if len(u) > 3 else "mutant")
                for s, w in d1:
                    if s[1].startswith("crash"):
                        ds.append((s, w))
                        attributed = True
            if not attributed:
                s = W.crash_signature("project", exc)
                ds.append((s, "lang sub-command: %s" % W.crash_text(exc)))
            info["outcome"] = "crash"
            return _dedup(ds), info
        if isinstance(exc, SystemExit):
            info["outcome"] = "rejected"
            return ds, info
        info["outcome"] = "ok"
        import glob
        import pandas as pd
        frames = []
        for p in sorted(glob.glob(os.path.join(res.workspace, "frontend", "gir.bundle*"))):
            try:
                frames.append(pd.read_feather(p))
            except Exception as e:
                # the sub-command ended normally, but what it left at the observation point is no table
                msg = [l for l in (res.stdout or "").splitlines() if "onversion failed" in l or "Could not convert" in l]
                ds.append(((ID, "struct", "project", "0:gir-bundle-unreadable", "lang-cmd"),
                           "lang sub-command ended normally but %s (%d bytes) cannot be read back: %s; lian printed: %.200s" % (
                               os.path.basename(p), os.path.getsize(p), type(e).__name__, "; ".join(msg[-2:]))))
        if ds:
            # say which unit carries the unstorable value, with the same signature as the in-memory flavour
            d2, _ = check_threaded(units, timeout=timeout)
            ds.extend(x for x in d2 if x[0][3].startswith("0:"))
            return _dedup(ds), info
        unit_lang = {}
        for u in res.loader.get_all_unit_info():
            unit_lang[int(u.module_id)] = (str(u.lang), str(u.original_path))
        per_unit = {}
        for df in frames:
            if "unit_id" not in df.columns:
                ds.append(((ID, "struct", "project", "0:gir-table-without-unit-id", "lang-cmd"), "gir bundle has no unit_id column"))
                continue
            for row in _rows_from_frame(df):
                per_unit.setdefault(row.get("unit_id"), []).append(row)
        intervals = []
        owner = {}
        for uid, rows in sorted(per_unit.items(), key=lambda kv: str(kv[0])):
            lang, path = unit_lang.get(uid, ("?", "?"))
            info["units_with_gir"] += 1
            ds.extend(W.check_unit(rows, lang, None, None))
            ids = [x["stmt_id"] for x in rows if W.is_int(x.get("stmt_id"))]
            if ids:
                intervals.append((min(ids), max(ids), os.path.basename(path), lang))
            for i in set(ids):
                if i in owner and owner[i] != uid:
                    ds.append(((ID, "struct", "project", "1:stmt-id-in-two-units", "lang-cmd"),
                               "stmt_id %d occurs in unit %s and in unit %s" % (i, owner[i], uid)))
                    break
                owner[i] = uid
        ds.extend(_interval_overlaps(intervals, "lang-cmd"))
        try:
            mx = res.loader.get_max_gir_id()
            if intervals and W.is_int(mx) and mx <= max(i[1] for i in intervals):
                ds.append(((ID, "struct", "project", "1:max-gir-id-not-above-ids", "lang-cmd"),
                           "saved max gir id %d but statement ids reach %d" % (mx, max(i[1] for i in intervals))))
        except Exception:
            pass
        return _dedup(ds), info
    finally:
        if res is not None:
            lianrun.cleanup(res)


# ---------------------------------------------------------------------------------------------
# cases (JSON) <-> execution

def run_case(case, timeout=None):
    kind = case.get("kind", "single")
    if kind == "single":
        data = G.decode_text(case)
        return check_single(data, case["lang"], top_markers=case.get("top_markers"), timeout=timeout or 300,
                            origin=case.get("origin", "mutant"))
    units = [(u["lang"], u["name"], G.decode_text(u), u.get("origin", "mutant")) for u in case["units"]]
    if kind == "threaded":
        return check_threaded(units, timeout=timeout or 300)
    if kind == "project":
        return check_project(units, timeout=timeout or 600)
    raise ValueError("unknown case kind %r" % kind)


def single_case(lang, data, top_markers=None, origin="mutant"):
    c = {"kind": "single", "lang": lang, "origin": origin}
    c.update(G.encode_text(data))
    if top_markers:
        c["top_markers"] = list(top_markers)
    return c


def multi_case(kind, units):
    us = []
    for unit in units:
        lang, name, data = unit[:3]
        u = {"lang": lang, "name": name, "origin": unit[3] if len(unit) > 3 else "mutant"}
        u.update(G.encode_text(data))
        us.append(u)
    return {"kind": kind, "units": us}


def _record(col, ds, info, case, nontrivial_key=None, kind=""):
    col.case()
    if info.get("harness_error"):
        col.error(info["harness_error"])
    out = info.get("outcome")
    if out:
        col.label("outcome:%s%s:%s" % (kind, case.get("lang", ""), out))
    if out == "timeout":
        col.discards["timeout"] += 1
    if nontrivial_key is not None and (out in ("rows", "crash", "rejected", "ok") or info.get("units_with_gir")):
        col.nontriv(nontrivial_key)
    for s, w in ds:
        col.discrepancy(s, w, case)


# ---------------------------------------------------------------------------------------------
# step-overs: template groups the generator leaves out while a finding is open

STEPOVER_GROUPS = {
    # template group (c03_gen.GROUPS) -> signatures; while ANY of them is an OPEN known finding the group is left out
    "ts-field-or-index-write": [(ID, "crash", "typescript", "AttributeError:Parser.parse_field", "assignment_expression"),
                                (ID, "crash", "typescript", "AttributeError:Parser.parse_array", "assignment_expression")],
    "ts-destructuring-with-key": [(ID, "crash", "typescript", "AttributeError:Parser.property_name", "assignment_expression"),
                                  (ID, "crash", "typescript", "AttributeError:Parser.property_name", "variable_declaration")],
    "ts-abstract-class": [(ID, "crash", "typescript", "KeyError", "class_declaration")],
    "ts-new-without-arguments": [(ID, "crash", "typescript", "AttributeError", "new_expression")],
    "ts-catch-without-binding": [(ID, "crash", "typescript", "AttributeError", "parse_catch_clause")],
    "ts-as-const": [(ID, "crash", "typescript", "IndexError", "as_expression")],
    "c-enum-value-expression": [(ID, "crash", "c", "TypeError", "enum_body")],
    "php-namespace": [(ID, "struct", "php", "4:executable-statement-outside-any-method", "namespace_decl")],
}


def active_stepovers():
    out = []
    for name, sigs in sorted(STEPOVER_GROUPS.items()):
        if any(common.classify(ID, s)[0] == "known" for s in sigs):
            out.append(name)
    return out


# ---------------------------------------------------------------------------------------------
# shards

def _hyp():
    import hypothesis
    from hypothesis import settings, strategies as st, HealthCheck
    return hypothesis, settings, st, HealthCheck


def _settings(hypothesis, settings, HealthCheck, n):
    return settings(max_examples=n, deadline=None, database=None, derandomize=False, report_multiple_bugs=False,
                    suppress_health_check=list(HealthCheck), phases=[hypothesis.Phase.generate])


def _guarded(col, fn, *a, **k):
    """Run one check; an exception of the harness itself must not reach Hypothesis (it would be retried and
    reported as flaky): it becomes a harness error of the run."""
    import traceback
    try:
        return fn(*a, **k)
    except KeyboardInterrupt:
        raise
    except BaseException as e:
        if type(e).__module__.startswith("hypothesis"):
            raise
        col.error("check raised %s: %s\n%s" % (type(e).__name__, str(e)[:300], "".join(traceback.format_tb(e.__traceback__)[-4:])))
        return [], {"outcome": "harness-error", "rows": 0}


def _uniform(data, st):
    """(draw, strategies) that choose uniformly, driven by a random.Random which Hypothesis seeds."""
    rnd = data.draw(st.randoms(use_true_random=True))
    return G.rand_draw(rnd), G.RandSt


def corpus_shard(arg):
    lang, part, nparts, tier = arg[:4]
    want_sample = len(arg) > 4 and arg[4]
    col = Collector()
    files = G.corpus()[lang]
    timeout = 30 if tier == "quick" else 900      # one corpus file needs a minute even on an idle core
    for i, (rel, data) in enumerate(files):
        if i % nparts != part:
            continue
        if tier == "quick" and (len(data) > G.MAX_CORPUS_BYTES_QUICK or rel in G.SLOW_CORPUS_FILES):
            col.discards["slow corpus file (thorough tier only): %s" % rel] += 1
            continue
        ds, info = _guarded(col, check_single, data, lang, timeout=timeout, origin="corpus")
        case = single_case(lang, data, origin="corpus")
        case["corpus_file"] = rel
        _record(col, ds, info, case, kind="corpus:")
        col.label("corpus:%s" % lang)
        if want_sample and len(col.samples) < 1 and info["outcome"] == "rows" and i >= 10:
            col.sample({"kind": "corpus", "lang": lang, "file": rel, "outcome": info["outcome"], "rows": info["rows"]})
    return col


def gen_shard(arg):
    lang, seed, n, tier = arg[:4]
    want_sample = len(arg) > 4 and arg[4]
    hypothesis, settings, st, HealthCheck = _hyp()
    col = Collector()
    avoid = active_stepovers()
    timeout = 30 if tier == "quick" else 180

    @hypothesis.seed(seed)
    @_settings(hypothesis, settings, HealthCheck, n)
    @hypothesis.given(st.data())
    def prop(data):
        draw, rst = _uniform(data, st)
        text, top_markers, labels = G.generate_program(lang, draw, rst, avoid=avoid)
        raw = text.encode("utf-8")
        ds, info = _guarded(col, check_single, raw, lang, top_markers=top_markers, timeout=timeout, origin="generated")
        case = single_case(lang, raw, top_markers, origin="generated")
        _record(col, ds, info, case, nontrivial_key=common.jhash([lang, text]), kind="generated:")
        col.label("generated:%s" % lang)
        for l in labels:
            col.label("generated:%s" % l)
        if info.get("order_markers", 0) >= 2:
            col.label("generated:source_order_compared")
        for a in avoid:
            col.stepovers[a] += 1
        if want_sample and len(col.samples) < 1 and col.evaluations >= 25 and 200 < len(text) < 900:
            col.sample({"kind": "generated", "lang": lang, "text": text, "top_markers": top_markers, "outcome": info["outcome"], "rows": info["rows"]})

    prop()
    return col


def _strip_leading_line_comments(data):
    lines = data.splitlines(keepends=True)
    while lines and (lines[0].lstrip().startswith(b"//") or not lines[0].strip()):
        lines.pop(0)
    return b"".join(lines)


def mut_shard(arg):
    lang, seed, n, tier = arg[:4]
    want_sample = len(arg) > 4 and arg[4]
    hypothesis, settings, hst, HealthCheck = _hyp()
    col = Collector()
    avoid = active_stepovers()
    all_files = G.corpus()[lang]
    corpus_hashes = set(common.jhash([lang, d.decode("utf-8", "replace")]) for _, d in all_files)
    bases = [d for _, d in all_files if 0 < len(d) <= G.MAX_MUTATION_BASE_BYTES]
    if lang == "c":
        # c_parser.is_comment() looks at the TEXT of a node: a file whose first bytes are `//` is taken for one
        # comment as a whole and yields no GIR (allowed by C03, noted in the report).  A third of the C corpus
        # starts that way; mutants of those files would almost all be trivial, so their bases lose the leading
        # comment lines (the unmodified files are still lowered by the corpus shard).
        bases = [_strip_leading_line_comments(d) for d in bases]
        bases = [d for d in bases if d.strip()]
    small = [d for d in bases if len(d) <= 1500]
    ops = G.QUICK_OPS if tier == "quick" else G.MUTATION_OPS
    max_ops = 2 if tier == "quick" else 5
    timeout = 30 if tier == "quick" else 180

    @hypothesis.seed(seed)
    @_settings(hypothesis, settings, HealthCheck, n)
    @hypothesis.given(hst.data())
    def prop(data):
        draw, st = _uniform(data, hst)
        which = draw(st.sampled_from(list(range(10))))
        if which < 3:
            text, _, _ = G.generate_program(lang, draw, st, avoid=avoid)
            cur = text.encode("utf-8")
            col.label("base:generated")
        elif which < 6 and small:
            cur = draw(st.sampled_from(small))
            col.label("base:corpus-small")
        else:
            cur = draw(st.sampled_from(bases))
            col.label("base:corpus")
        k = draw(st.sampled_from(list(range(1, max_ops + 1))))
        applied = []
        for _ in range(k):
            op = draw(st.sampled_from(ops))
            applied.append(op)
            other = draw(st.sampled_from(small or bases)) if op == "splice" else None
            cur = G.mutate_once(cur, lang, draw, st, op, other)
            col.label("op:%s" % op)
        key = common.jhash([lang, cur.decode("utf-8", "replace")])
        origin = "corpus" if key in corpus_hashes else "mutant"      # (a mutation may be the identity)
        ds, info = _guarded(col, check_single, cur, lang, timeout=timeout, origin=origin)
        case = single_case(lang, cur, origin=origin)
        _record(col, ds, info, case, nontrivial_key=None if key in corpus_hashes else key, kind="mutant:")
        col.label("mutant:%s" % lang)
        if want_sample and len(col.samples) < 1 and col.evaluations >= 25 and info["outcome"] == "rows" and 80 < len(cur) < 500:
            col.sample({"kind": "mutant", "lang": lang, "ops": applied, "text": cur.decode("utf-8", "replace"), "outcome": info["outcome"], "rows": info["rows"]})

    prop()
    return col


def _draw_units(draw, st, corp, avoid, light_ops):
    k = draw(st.sampled_from([2, 3, 4]))
    units = []
    for i in range(k):
        lang = draw(st.sampled_from(G.LANGS))
        how = draw(st.sampled_from(list(range(10))))
        if how < 4:
            text, _, _ = G.generate_program(lang, draw, st, avoid=avoid)
            data = text.encode("utf-8")
            origin = "generated"
        else:
            pool = corp[lang]
            data = draw(st.sampled_from(pool))
            origin = "corpus"
            if how >= 8:
                data = G.mutate_once(data, lang, draw, st, draw(st.sampled_from(light_ops)), None)
                origin = "mutant"
        if i == 1 and draw(st.sampled_from(list(range(10)))) == 0:
            data = b""                       # an empty file in the middle: no GIR for that unit
        name = "u%d%s" % (i, G.LANG_EXT[lang])
        if draw(st.booleans()):
            name = "d%d/%s" % (i % 2, name)
        units.append((lang, name, data, origin))
    return units


def multi_shard(arg):
    kind, seed, n, tier = arg[:4]
    want_sample = len(arg) > 4 and arg[4]
    hypothesis, settings, st, HealthCheck = _hyp()
    col = Collector()
    avoid = active_stepovers()
    corp = {l: [d for _, d in fs if 0 < len(d) <= 4000] for l, fs in G.corpus(include_real_cases=False).items()}
    light = ["delete_line", "duplicate_line", "insert_token", "delete_range"]
    timeout = 30 if tier == "quick" else 180

    @hypothesis.seed(seed)
    @_settings(hypothesis, settings, HealthCheck, n)
    @hypothesis.given(st.data())
    def prop(data):
        draw, rst = _uniform(data, st)
        units = _draw_units(draw, rst, corp, avoid, light)
        case = multi_case(kind, units)
        if kind == "threaded":
            ds, info = _guarded(col, check_threaded, units, timeout=timeout)
        else:
            ds, info = _guarded(col, check_project, units, timeout=timeout * 4)
        col.case()
        if info.get("harness_error"):
            col.error(info["harness_error"])
        col.label("%s:units=%d" % (kind, len(units)))
        col.label("%s:units_with_gir=%d" % (kind, info.get("units_with_gir", 0)))
        if len(set(u[0] for u in units)) > 1:
            col.label("%s:mixed-language" % kind)
        if info.get("units_with_gir", 0) >= 2:
            col.nontriv(common.jhash(case))
        if info.get("outcome") == "timeout":
            col.discards["timeout"] += 1
        for s, w in ds:
            col.discrepancy(s, w, case)
        if want_sample and len(col.samples) < 1 and col.evaluations >= 4 and info.get("units_with_gir", 0) >= 2 and sum(len(u[2]) for u in units) < 1500:
            col.sample({"kind": kind, "units": [{"lang": u[0], "name": u[1], "origin": u[3], "text": u[2].decode("utf-8", "replace")} for u in units],
                        "units_with_gir": info.get("units_with_gir")})

    prop()
    return col


def atheris_shard(arg):
    """Thorough tier: one coverage-guided libFuzzer campaign (harness/c03_atheris.py, own process) on one
    frontend, bounded by -runs.  Every bucket it reports is re-run here, uninstrumented, before it counts."""
    import json
    import shutil
    import subprocess
    import tempfile
    lang, seed, runs, tier = arg
    col = Collector()
    scratch = tempfile.mkdtemp(prefix="lianverif-atheris-")
    out = os.path.join(scratch, "out.json")
    env = dict(os.environ)
    env.update(C03_ATHERIS_SCRATCH=scratch, PYTHONHASHSEED="0", LIAN_REPO=common.REPO)
    script = os.path.join(os.path.dirname(os.path.dirname(os.path.abspath(__file__))), "c03_atheris.py")
    try:
        try:
            p = subprocess.run([common.PY, script, lang, out, str(seed & 0x7FFFFFFF), str(runs)], env=env,
                               stdout=subprocess.DEVNULL, stderr=subprocess.PIPE, timeout=7200)
            rc, err = p.returncode, p.stderr.decode("utf-8", "replace")[-600:]
        except subprocess.TimeoutExpired:
            rc, err = -1, "timeout of the campaign process"
        state = None
        if os.path.exists(out):
            with open(out) as f:
                state = json.load(f)
        if state is None:
            col.notes.append("atheris %s: no result file (rc=%s) %s" % (lang, rc, err[-300:]))
            col.extra["atheris:campaigns without result"] += 1
            return col
        if str(state.get("status", "")).startswith("atheris unavailable"):
            col.notes.append("atheris could not be imported (%s): the thorough tier fell back to the Hypothesis mutator only" % state["status"])
            col.extra["atheris:unavailable"] += 1
            return col
        if state.get("status") != "finished":
            col.notes.append("atheris %s: campaign ended early after %d of %d runs (rc=%s) %s" % (lang, state.get("execs", 0), runs, rc, err[-200:]))
        col.evaluations += int(state.get("execs", 0))
        col.extra["atheris:%s:runs" % lang] += int(state.get("execs", 0))
        col.extra["atheris:%s:distinct inputs with GIR or exception" % lang] += int(state.get("nontrivial", 0))
        for o, n in (state.get("outcomes") or {}).items():
            col.labels["atheris:%s:outcome:%s" % (lang, o)] += n
        for k, b in sorted((state.get("buckets") or {}).items()):
            case = b["examples"][0]
            ds, info = run_case(case, timeout=180)
            sigs = [tuple(s_) for s_, _ in ds]
            if tuple(json.loads(k)) not in sigs:
                col.notes.append("atheris %s: bucket %s did not reproduce uninstrumented (got %s)" % (lang, k, sigs[:2]))
            for s_, w in ds:
                col.discrepancy(s_, w, case)
                col.buckets[tuple(s_)]["count"] += max(0, int(b.get("count", 1)) - 1)
    finally:
        shutil.rmtree(scratch, ignore_errors=True)
    return col


# ---------------------------------------------------------------------------------------------
# shrinking (new violations only): ddmin over lines, then over characters, preserving the signature

def shrink_case(case, sig, budget=250):
    if case.get("kind", "single") != "single":
        return case
    if "source-order" in str(sig[3]):
        # the clause is defined for generated (error-free) programs only: a shrunk text is not one of them
        return case
    lang = case["lang"]
    data = G.decode_text(case)
    if len(data) > 200000:
        return case

    origin = case.get("origin", "mutant")

    def fails(raw):
        ds, _ = check_single(raw, lang, top_markers=case.get("top_markers"), timeout=60, origin=origin)
        return any(tuple(s) == tuple(sig) for s, _ in ds)

    lines = data.splitlines(keepends=True)
    if len(lines) > 1:
        lines = common.ddmin(lines, lambda ls: fails(b"".join(ls)), max_tests=budget)
        data = b"".join(lines)
    if len(data) <= 400:
        try:
            chars = list(data.decode("utf-8"))
            chars = common.ddmin(chars, lambda cs: fails("".join(cs).encode("utf-8")), max_tests=budget)
            data = "".join(chars).encode("utf-8")
        except UnicodeDecodeError:
            pass
    if not fails(data):
        return case
    if origin in PRISTINE_ORIGINS and str(sig[1]) == "crash" and not syntactically_valid(data, lang):
        return case
    out = single_case(lang, data, case.get("top_markers"), origin=origin)
    return out


# ---------------------------------------------------------------------------------------------
# entry points

def replay(path):
    rec = common.load_replay(path)
    ds, info = run_case(rec["case"])
    if info.get("harness_error"):
        print("HARNESS-ERROR: property=%s %s" % (ID, info["harness_error"]))
        return 2
    new = []
    for s, w in ds:
        kind, _ = common.classify(ID, tuple(s))
        if kind == "known" and not os.environ.get("VERIF_CONFIRM"):
            print("KNOWN-FINDING: property=%s %s" % (ID, w))
        else:
            new.append((s, w))
    if new:
        print("VIOLATION property=%s replay=%s" % (ID, path))
        for s, w in new:
            print("  signature=%s %s" % (list(s), w))
        return 1
    if not ds:
        print("%s replay %s: holds (%s)" % (ID, path, info.get("outcome")))
    return 0


def main(tier, seed, t0):
    col = Collector()
    # 1. committed regression inputs
    for path in common.replay_files(ID):
        rec = common.load_replay(path)
        ds, info = run_case(rec["case"])
        col.case()
        col.label("replayed")
        if info.get("harness_error"):
            col.error(info["harness_error"])
        for s, w in ds:
            col.discrepancy(s, w, rec["case"])

    ncpu = 16       # the shard layout (hence the cases) must not depend on how many cores happen to be there
    quick = tier == "quick"
    n_mut = 6300 if quick else 301000
    n_gen = 1400 if quick else 28000
    n_thr = 320 if quick else 8000
    n_prj = 32 if quick else 480
    args = []      # (function, arg)
    corp = G.corpus()
    # corpus: split each language over parts of roughly equal size
    for lang in G.LANGS:
        nparts = max(1, min(ncpu, len(corp[lang]) // 120 + 1))
        for p in range(nparts):
            args.append((corpus_shard, (lang, p, nparts, tier, lang == "java" and p == 0)))
    per_lang_shards = max(1, (ncpu * 2) // len(G.LANGS)) if quick else max(2, (ncpu * 6) // len(G.LANGS))
    shard_no = 0
    for lang in G.LANGS:
        for k in range(per_lang_shards):
            shard_no += 1
            args.append((mut_shard, (lang, common.shard_seed(seed, 1000 + shard_no), n_mut // (len(G.LANGS) * per_lang_shards) + 1, tier,
                                     lang == "typescript" and k == 0)))
        gshards = 1 if quick else 4
        for k in range(gshards):
            shard_no += 1
            args.append((gen_shard, (lang, common.shard_seed(seed, 3000 + shard_no), n_gen // (len(G.LANGS) * gshards) + 1, tier,
                                     lang == "go" and k == 0)))
    tshards = 4 if quick else ncpu
    for k in range(tshards):
        args.append((multi_shard, ("threaded", common.shard_seed(seed, 5000 + k), n_thr // tshards + 1, tier, k == 0)))
    pshards = 4 if quick else ncpu
    for k in range(pshards):
        args.append((multi_shard, ("project", common.shard_seed(seed, 6000 + k), n_prj // pshards + 1, tier, k == 0)))
    if not quick and not os.environ.get("C03_NO_ATHERIS"):
        for i, lang in enumerate(G.LANGS):
            args.append((atheris_shard, (lang, common.shard_seed(seed, 7000 + i), 60000, tier)))
    # long shards first
    order = {atheris_shard: -1, multi_shard: 0, mut_shard: 1, corpus_shard: 2, gen_shard: 3}
    args.sort(key=lambda fa: order[fa[0]])
    col.merge(common.run_shards(_dispatch, [(fn.__name__, a) for fn, a in args]))

    # shrink the smallest example of every unlisted bucket so that the replay file is readable.  When a change
    # breaks (almost) everything there are hundreds of unlisted buckets: report the MAX_REPORTED with the smallest
    # examples (each is shrunk and re-confirmed in a fresh process) and list the others in the evidence notes.
    new_sigs = sorted((s_ for s_ in col.buckets if common.classify(ID, s_)[0] == "new"),
                      key=lambda s_: (common.jsize(col.buckets[s_]["examples"][0]), str(s_)))
    for s_ in new_sigs[MAX_REPORTED:]:
        b = col.buckets.pop(s_)
        col.notes.append("unlisted signature not reported separately (more than %d): %s count=%d %s" % (MAX_REPORTED, list(s_), b["count"], b["what"][:120]))
    for sig in new_sigs[:MAX_REPORTED]:
        b = col.buckets[sig]
        try:
            b["examples"] = [shrink_case(b["examples"][0], sig, budget=120)]
        except Exception as e:       # shrinking is best effort
            col.notes.append("shrink failed for %s: %r" % (list(sig), e))
    extra = {"step_over_groups_active": active_stepovers(),
             "languages": G.LANGS,
             "corpus_files": {l: len(corp[l]) for l in G.LANGS},
             "atheris": ("7 campaigns x 60000 runs (harness/c03_atheris.py); see counters atheris:*" if not quick and not os.environ.get("C03_NO_ATHERIS")
                         else "thorough tier only")}
    return common.finish(ID, tier, seed, col, t0, RULE, ASSUMPTIONS, extra_coverage=extra)


def _dispatch(packed):
    name, a = packed
    return globals()[name](a)
