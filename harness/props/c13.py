"""C13 — the analysis terminates in bounded time on every program.

Parameterised adversarial program families (harness/c13_families.py) are swept over a size parameter n and run
through the complete pipeline (`lian run`, with and without --enable-p2) in forked, killable children
(harness/c13_run.py).  The verdict is taken on DETERMINISTIC STEP COUNTS obtained by wrapping, from the harness,
the per-statement visit of P2/P3, StmtStates.run, ComputeFrameStack.add, SymbolStateSpace.add and the taint worklist
pops; wall-clock time is only a watchdog.  See RULE / ASSUMPTIONS below for the exact oracle.
"""
import math
import os

from harness import common
from harness.common import Collector
from harness import c13_families as fam
from harness import c13_run as runner

ID = "C13"

DEGREE = 3.5                  # accepted polynomial degree: steps(b) <= (b/a)**DEGREE * steps(a) for sizes a < b
MIN_BASE = 50                 # a counter takes part in the growth rule only once it has reached this many steps
FIRST_BUDGET = 200_000        # absolute step budget of the smallest instance of a sweep (largest legitimate: < 3 000)
WATCHDOG_FLOOR_S = 120.0
WATCHDOG_FACTOR = 100.0
MEM_LIMIT_KB = 1 << 20        # a run may add at most 1 GiB of resident memory on top of the warm worker
COMPOSE_FACTOR = 2 ** DEGREE  # a composition of two programs at most doubles the size of the larger one

RULE = ("sweeps: for each of %d program families (recursion, mutual-recursion rings, self-application, cyclic imports, "
        "cyclic object graphs, nested loops, call chains with 2/3 call sites per function, branches, aliases, big literals, "
        "assignment chains, multi-valued operand chains, hostile constants) x {without, with --enable-p2} the size "
        "parameter n runs through an ascending list (quick: 2..16, thorough: 2..64 where valid) and every instance goes "
        "through the complete pipeline in a forked child with a step budget, an address-space limit and a wall-clock "
        "watchdog; compositions: Hypothesis-drawn pairs of families at n in 2..6 glued into one project. "
        "Oracle on deterministic step counters (P2/P3 statement visits, StmtStates.run, frames pushed, taint worklist "
        "pops, items added to a symbol-state space; thorough also total Python/C calls from cProfile): for consecutive "
        "sizes a<b of a sweep counter(b) <= (b/a)^3.5 * counter(a) for the total and for every single counter >= 50 (the "
        "run of size b is aborted as soon as the total exceeds that bound); a composition needs <= 2^3.5 x the steps of "
        "its costlier part; every run finishes before the watchdog max(120 s, 100 x wall of the previous size), a hit is "
        "re-run once; resident memory grows by < 1 GiB. "
        "Non-trivial = sweep instance with n >= 8 whose step count exceeds that of the smallest instance of its "
        "sweep, or a composition whose step count exceeds that of each of its parts; distinct by (families, sizes, flag)."
        % len(fam.FAMILIES))

ASSUMPTIONS = [
    "the technique cannot show divergence: a watchdog / step-budget hit only shows that the run did not finish within a budget "
    "that is >= 100 x (wall) resp. (b/a)^3.5 x (steps) what the next smaller instance needed",
    "polynomial growth is decided for the stated families and sizes only (n <= 16 quick, <= 64 thorough), on step counters, with "
    "degree <= 3.5 accepted (the unchanged tree is cubic in the taint phase: sources x sinks x SFG size)",
    "a step is one call of P2PrelimSemanticAnalysis.compute_stmt_states / StmtStates.run / ComputeFrameStack.add / "
    "SymbolStateSpace.add or one deque.popleft of taint_analysis; work inside one step is only bounded by the cProfile call "
    "count of the thorough tier and by the watchdog",
    "rule files: entry %unit_init, parameter source `p`, sink call `sink(arg0)`; the 1 MB *_from_code.yaml rule files are "
    "replaced by an empty list; python only",
    "a pipeline run that ends with an exception has terminated: it is counted (labels, counters) but is not a C13 violation",
    "the programs of the other checks are not re-run here (they run under their own drivers)",
    "while a finding of a group is open, the families of that group are swept only over the sizes below the blow-up "
    "(step-over, counted); the committed replay files keep exercising the finding itself",
]

# families whose discrepancies share one root cause are reported under one group name
GROUPS = {f: "const-fold" for f in fam.HOSTILE}
GROUPS.update({"state_squaring": "state-product", "state_squaring_call": "state-product"})

# sizes -------------------------------------------------------------------------------------------
QUICK_SIZES = [2, 3, 4, 6, 8, 12, 16]
THOROUGH_SIZES = [2, 3, 4, 6, 8, 12, 16, 24, 32, 48, 64]
MAX_SIZE = {
    # python refuses more than 20 statically nested blocks: keep the programs valid
    "nested_loops": {"quick": 16, "thorough": 18},
    # cubic taint phase: n = 64 needs > 3 M steps (minutes)
    "mutual_ring2": {"quick": 16, "thorough": 32},
}
RESTRICTED = {
    # family: (sizes while a finding of its group is open [step-over], sizes otherwise)
    "hostile_strings": ([1, 4, 16, 64], [1, 4, 16, 64]),
    "hostile_arith": ([1, 2, 3], [1, 2, 3, 4, 6, 8, 12, 16]),
    "hostile_tower": ([1, 2], [1, 2, 3, 4, 6, 8]),
    "hostile_doubling": ([4, 8, 12, 16], [4, 8, 12, 16, 24, 32, 48]),
    "hostile_squaring": ([4, 8, 12], [4, 8, 12, 16, 24, 32, 48]),
    "state_squaring": ([1, 2, 3], [1, 2, 3, 4, 6, 8, 12, 16]),
    "state_squaring_call": ([1, 2, 3], [1, 2, 3, 4, 6, 8, 12, 16]),
}
THOROUGH_EXTRA = {"hostile_strings": [256, 1024, 4096], "nested_loops": [18], "state_squaring": [32], "state_squaring_call": [32]}
KINDS = ("growth", "watchdog", "memory", "compose-growth")


def flagstr(p2):
    return "p2" if p2 else "nop2"


def group_of(spec):
    gs = sorted({GROUPS.get(f, f) for f, _ in spec})
    for g in ("const-fold", "state-product"):
        if g in gs:
            return g
    return "+".join(gs)


def group_open(group):
    """step-over switch: true while a finding of the group (any facet) is listed as open"""
    return any(common.classify(ID, (ID, group, k))[0] == "known" for k in KINDS)


def sizes_for(family, tier):
    """-> (sizes, number of sizes stepped over)"""
    if family in RESTRICTED:
        safe, full = RESTRICTED[family]
        stepped = group_open(GROUPS[family])
        sizes = list(safe if stepped else full)
        if tier == "thorough" and not stepped:
            sizes = sorted(set(sizes + THOROUGH_EXTRA.get(family, [])))
        return sizes, (len(full) - len(safe) if stepped else 0)
    base = QUICK_SIZES if tier == "quick" else THOROUGH_SIZES
    cap = MAX_SIZE.get(family, {}).get(tier)
    sizes = [n for n in base if cap is None or n <= cap]
    if tier == "thorough":
        sizes = sorted(set(sizes + THOROUGH_EXTRA.get(family, [])))
    return sizes, 0


# ---------------------------------------------------------------------------------------------------
# one run with the retry-once watchdog policy

def run_once(files, p2, wall_s, step_budget, count_calls=False, retry=True, mem_headroom=None):
    kw = dict(wall_s=wall_s, step_budget=step_budget, count_calls=count_calls,
              mem_headroom=mem_headroom or runner.MEM_HEADROOM)
    r = runner.run_project(files, p2, **kw)
    r["attempts"] = 1
    if r["status"] == "watchdog" and retry:
        r2 = runner.run_project(files, p2, **kw)
        r2["attempts"] = 2
        return r2
    return r


def mem_growth_kb(r):
    c = r.get("counters") or {}
    return max(0, int(r.get("maxrss_kb") or 0) - int(c.get("base_rss_kb") or 0))


# the path search of the taint phase runs once per reported flow over the reachable part of the SFG (flows x graph size:
# up to degree 4 in the families with quadratically many flows, with large lower-order terms at the small sizes)
COUNTER_DEGREE = {"taint_dfs": 5.0}


def bound(a, b, base, degree=None):
    return int(math.floor((float(b) / float(a)) ** (degree or DEGREE) * base + 1e-9))


def growth_discrepancies(a, ca, b, cb, counters):
    """ca, cb: counter dicts of the instances of size a < b -> [(counter, base, value, bound)]"""
    out = []
    for k in counters:
        base, val = int(ca.get(k) or 0), int(cb.get(k) or 0)
        if base < MIN_BASE:
            continue
        lim = bound(a, b, base, COUNTER_DEGREE.get(k))
        if val > lim:
            out.append((k, base, val, lim))
    return out


GROWTH_COUNTERS = ("steps",) + runner.COUNTERS


def judge_terminal(r, spec, p2, wall_s, group=None):
    """discrepancy for a run that did not end normally (after the retry policy), or None"""
    g, fl = group or group_of(spec), flagstr(p2)
    st = r["status"]
    if st == "watchdog":
        return ((ID, g, "watchdog"),
                "%s %s: no result within the %.0f s watchdog in %d attempt(s)" % (spec, fl, wall_s, r.get("attempts", 1)))
    if st in ("memory", "killed"):
        return ((ID, g, "memory"),
                "%s %s: child died without a result (%s) under the address-space / file-size limits" % (spec, fl, r.get("how") or st))
    if st == "done" and mem_growth_kb(r) > MEM_LIMIT_KB:
        return ((ID, g, "memory"),
                "%s %s: resident memory grew by %d MiB" % (spec, fl, mem_growth_kb(r) >> 10))
    if st == "done" and r.get("exc") and "MemoryError" in str(r.get("exc")):
        return ((ID, g, "memory"), "%s %s: pipeline ended with %s" % (spec, fl, r.get("exc")))
    return None


def record_run(col, r, spec, p2):
    col.case()
    col.label("status:%s" % r["status"], "flag:%s" % flagstr(p2))
    for f, n in spec:
        col.label("family:%s" % f)
        if int(n) >= 8:
            col.label("n>=8")
    if r["status"] == "done":
        if r.get("exc"):
            col.label("pipeline-exception")
            col.extra["pipeline_exception:%s:%s" % (str(r["exc"]).split(":")[0], "+".join("%s(%s)" % (f, n) for f, n in spec))] += 1
        else:
            if r.get("flows"):
                col.label("taint:flows>0")
            if (r.get("counters") or {}).get("taint_pops"):
                col.label("taint:worklist-used")
        col.extra["steps_total"] += int((r.get("counters") or {}).get("steps") or 0)
    elif r["status"] == "crash":
        col.error("child crashed outside lian for %s %s: %s\n%s" % (spec, flagstr(p2), r.get("error"), r.get("tb")))


# ---------------------------------------------------------------------------------------------------
# sweeps

def sweep(col, family, p2, sizes, count_calls=False, counters=GROWTH_COUNTERS, first_budget=FIRST_BUDGET):
    prev = None           # (n, counters, wall)
    first_steps = None
    trace = []
    for idx, n in enumerate(sizes):
        spec = [[family, n]]
        files = fam.build(spec)
        if prev is None:
            budget, wall_s = first_budget, WATCHDOG_FLOOR_S
        else:
            budget = bound(prev[0], n, prev[1]["steps"])
            wall_s = max(WATCHDOG_FLOOR_S, WATCHDOG_FACTOR * prev[2])
        if count_calls:
            wall_s *= 4
        r = run_once(files, p2, wall_s, budget, count_calls=count_calls)
        record_run(col, r, spec, p2)
        c = r.get("counters") or {}
        trace.append([n, r["status"], c.get("calls") if count_calls else c.get("steps")])
        case_pair = {"kind": "pair", "family": family, "p2": bool(p2), "a": prev[0] if prev else None, "b": n,
                     "calls": bool(count_calls)}
        d = judge_terminal(r, spec, p2, wall_s)
        if d:
            col.discrepancy(d[0], d[1], {"kind": "run", "spec": spec, "p2": bool(p2), "budget_s": wall_s})
            col.discards["sweep-stopped-after-overrun"] += len(sizes) - idx - 1
            break
        if r["status"] == "step-budget":
            if prev is None:
                what = "%s n=%d %s: more than %d counted steps in the smallest instance (%s)" % (
                    family, n, flagstr(p2), budget, {k: c.get(k) for k in runner.COUNTERS})
                case_pair = {"kind": "run", "spec": spec, "p2": bool(p2), "budget_s": wall_s, "step_budget": budget}
            else:
                what = "%s %s: steps(n=%d) > (%d/%d)^%.1f * steps(n=%d) = %d (aborted at the bound; %s)" % (
                    family, flagstr(p2), n, n, prev[0], DEGREE, prev[0], budget, {k: c.get(k) for k in runner.COUNTERS})
            col.discrepancy((ID, GROUPS.get(family, family), "growth"), what, case_pair)
            col.discards["sweep-stopped-after-overrun"] += len(sizes) - idx - 1
            break
        if r["status"] != "done":
            break
        if r.get("exc"):
            col.discards["pipeline-exception-excluded-from-growth"] += 1
            continue
        if first_steps is None:
            first_steps = c["steps"]
        if n >= 8 and c["steps"] > first_steps:
            col.nontriv(["sweep", family, n, bool(p2), bool(count_calls)])
            col.label("nontrivial")
        if prev is not None:
            for k, base, val, lim in growth_discrepancies(prev[0], prev[1], n, c, counters):
                col.discrepancy((ID, GROUPS.get(family, family), "growth"),
                                "%s %s: %s(n=%d)=%d > (%d/%d)^%.1f * %s(n=%d)=%d -> bound %d" % (
                                    family, flagstr(p2), k, n, val, n, prev[0], COUNTER_DEGREE.get(k, DEGREE), k, prev[0], base, lim), case_pair)
        prev = (n, c, float(r.get("wall_s") or r.get("elapsed_s") or 0.0))
    if len(col.samples) < 1:
        col.sample({"family": family, "p2": bool(p2), "calls": bool(count_calls), "trace [n, status, steps]": trace})
    col.notes.append("%s %s%s: %s" % (family, flagstr(p2), " calls" if count_calls else "",
                                      " ".join("%s:%s" % (t[0], t[2] if t[1] == "done" else t[1]) for t in trace)))
    return col


def sweep_shard(arg):
    family, p2, sizes, count_calls = arg
    col = Collector()
    if count_calls:
        return sweep(col, family, p2, sizes, count_calls=True, counters=("calls",))
    return sweep(col, family, p2, sizes)


# ---------------------------------------------------------------------------------------------------
# compositions of two families

_part_cache = {}


def part_steps(col, f, n, p2):
    key = (f, n, bool(p2))
    if key not in _part_cache:
        r = run_once(fam.build([[f, n]]), p2, WATCHDOG_FLOOR_S, FIRST_BUDGET)
        record_run(col, r, [[f, n]], p2)
        col.label("composition-part")
        ok = r["status"] == "done" and not r.get("exc")
        _part_cache[key] = int(r["counters"]["steps"]) if ok else None
    return _part_cache[key]


def check_composition(col, spec, p2):
    """-> list of (sig, what)"""
    out = []
    parts = [part_steps(col, f, n, p2) for f, n in spec]
    if any(p is None for p in parts):
        col.discards["composition-part-did-not-finish"] += 1
        return out
    budget = int(COMPOSE_FACTOR * max(parts))
    files = fam.build(spec)
    r = run_once(files, p2, WATCHDOG_FLOOR_S, budget)
    record_run(col, r, spec, p2)
    col.label("composition")
    d = judge_terminal(r, spec, p2, WATCHDOG_FLOOR_S)
    if d:
        out.append(d)
        return out
    if r["status"] == "step-budget":
        out.append(((ID, group_of(spec), "compose-growth"),
                    "%s %s: more than 2^%.1f x max(parts)=%d steps (parts %s)" % (spec, flagstr(p2), DEGREE, budget, parts)))
        return out
    if r["status"] == "done" and not r.get("exc"):
        steps = int(r["counters"]["steps"])
        ratio = float(steps) / max(parts)
        col.label("compose-ratio:" + ("<=1" if ratio <= 1 else "<=2" if ratio <= 2 else "<=4" if ratio <= 4 else "<=8" if ratio <= 8 else "<=11.3"))
        if ratio > 6:
            col.notes.append("composition %s %s: steps %d = %.2f x max(parts %s)" % (spec, flagstr(p2), steps, ratio, parts))
        if steps > max(parts):
            col.nontriv(["compose", spec, bool(p2)])
            col.label("nontrivial")
    elif r["status"] == "done":
        col.discards["pipeline-exception-excluded-from-growth"] += 1
    return out


def compose_shard(arg):
    seed, count = arg
    import hypothesis
    from hypothesis import settings, strategies as st, HealthCheck
    col = Collector()
    stepped = {f: group_open(GROUPS[f]) and RESTRICTED[f][0] != RESTRICTED[f][1] for f in RESTRICTED}
    names = sorted(fam.FAMILIES)

    def size_st(f):
        if f in RESTRICTED:
            return st.sampled_from(RESTRICTED[f][0] if stepped[f] else RESTRICTED[f][1][:6])
        return st.integers(2, 6)

    part = st.sampled_from(names).flatmap(lambda f: st.tuples(st.just(f), size_st(f)))

    @hypothesis.seed(seed)
    @settings(max_examples=count, deadline=None, database=None, derandomize=False, report_multiple_bugs=False,
              suppress_health_check=list(HealthCheck), phases=[hypothesis.Phase.generate])
    @hypothesis.given(part, part, st.booleans())
    def prop(a, b, p2):
        spec = [[a[0], a[1]], [b[0], b[1]]]
        for f, _ in spec:
            if stepped.get(f):
                col.stepovers["C13|%s|sizes of %s restricted in compositions" % (GROUPS[f], f)] += 1
        for sig, what in check_composition(col, spec, p2):
            col.discrepancy(sig, what, {"kind": "compose", "spec": spec, "p2": bool(p2)})
        if len(col.samples) < 1:
            col.sample({"composition": spec, "p2": bool(p2), "main.py": fam.build(spec)["main.py"][:1500]})

    prop()
    return col


# ---------------------------------------------------------------------------------------------------
# replayable cases

def case_files(case):
    if case.get("files"):
        return dict(case["files"])
    return fam.build(case["spec"])


def check_case(case, col=None):
    """-> list of (sig, what).  Used for committed replays, for confirmation of fresh violations and by replay()."""
    col = col if col is not None else Collector()
    kind = case.get("kind")
    p2 = bool(case.get("p2"))
    out = []
    if kind == "run":
        spec = case.get("spec") or []
        group = case.get("group") or group_of(spec)
        wall_s = float(case.get("budget_s") or WATCHDOG_FLOOR_S)
        known = common.classify(ID, (ID, group, "watchdog"))[0] == "known" and not os.environ.get("VERIF_CONFIRM")
        # a hit of an already listed finding needs no second attempt (the retry only guards against machine noise);
        # neither does the fresh-process confirmation of a violation, which already is a further attempt
        r = run_once(case_files(case), p2, wall_s, int(case.get("step_budget") or runner.DEFAULT_STEP_BUDGET),
                     retry=not known and not os.environ.get("VERIF_CONFIRM"), mem_headroom=(int(case["mem_headroom_mb"]) << 20) if case.get("mem_headroom_mb") else None)
        record_run(col, r, spec, p2)
        d = judge_terminal(r, spec or group, p2, wall_s, group=group)
        if d:
            out.append(d)
        elif r["status"] == "step-budget":
            out.append(((ID, group, "growth"),
                        "%s %s: step budget %s exceeded" % (spec or group, flagstr(p2), case.get("step_budget"))))
    elif kind == "pair":
        sub = Collector()
        counters = ("calls",) if case.get("calls") else GROWTH_COUNTERS
        sizes = [n for n in (case.get("a"), case.get("b")) if n]
        sweep(sub, case["family"], p2, sizes, count_calls=bool(case.get("calls")), counters=counters)
        col.merge(sub)
        col.samples[:] = []
        for sig, b in sub.buckets.items():
            out.append((sig, b["what"]))
    elif kind == "compose":
        out.extend(check_composition(col, [list(x) for x in case["spec"]], p2))
    else:
        raise ValueError("unknown C13 case kind %r" % kind)
    return out


def replay_shard(path):
    col = Collector()
    rec = common.load_replay(path)
    col.label("replayed")
    for sig, what in check_case(rec["case"], col):
        col.discrepancy(sig, what, rec["case"])
    return col


def replay(path):
    from harness import lianrun
    rec = common.load_replay(path)
    try:
        ds = check_case(rec["case"])
    finally:
        lianrun.cleanup_scratch()
    for sig, what in ds:
        kind, _ = common.classify(ID, tuple(sig))
        if kind == "known" and not os.environ.get("VERIF_CONFIRM"):
            print("KNOWN-FINDING: property=%s %s" % (ID, what))
            continue
        print("VIOLATION property=%s replay=%s" % (ID, path))
        print("  signature=%s %s" % (list(sig), what))
        return 1
    if not ds:
        print("%s replay %s: holds" % (ID, path))
    return 0


# ---------------------------------------------------------------------------------------------------

def _shard(arg):
    from harness import lianrun
    kind = arg[0]
    try:
        if kind == "replay":
            return replay_shard(arg[1])
        if kind == "sweep":
            return sweep_shard(arg[1:])
        if kind == "compose":
            return compose_shard(arg[1:])
        raise ValueError(kind)
    finally:
        # pool workers are terminated without running atexit handlers: remove this worker's scratch directory now
        lianrun.cleanup_scratch()


# rough relative cost of a sweep (to start the expensive shards first)
_COST = {"mutual_ring2": 9, "mutual_ring": 5, "cyclic_imports": 5, "call_chain3": 5, "call_chain2": 3, "direct_recursion": 2}


def main(tier, seed, t0):
    col = Collector()
    args = [("replay", p) for p in common.replay_files(ID)]
    sweeps = []
    for family in sorted(fam.FAMILIES):
        sizes, skipped = sizes_for(family, tier)
        if skipped:
            col.stepovers["C13|%s|%s sizes above %d" % (GROUPS[family], family, sizes[-1])] += 2 * skipped
        for p2 in (False, True):
            sweeps.append(("sweep", family, p2, sizes, False))
            if tier == "thorough" and family not in RESTRICTED:
                sweeps.append(("sweep", family, p2, [n for n in sizes if n in (2, 4, 8, 16)], True))
    sweeps.sort(key=lambda a: -_COST.get(a[1], 1) * (4 if a[4] else 1))
    args += sweeps
    ncomp = 50 if tier == "quick" else 2000
    nsh = min(common.NCPU, 16) if tier == "thorough" else min(common.NCPU, 10)
    args += [("compose", common.shard_seed(seed, i), ncomp // nsh + (1 if i < ncomp % nsh else 0)) for i in range(nsh)]
    col.merge(common.run_shards(_shard, args))

    # self-checks against vacuity (only meaningful when nothing new was flagged)
    done = col.labels.get("status:done", 0)
    if not any(common.classify(ID, sig)[0] == "new" for sig in col.buckets):
        if col.evaluations == 0 or done < 0.8 * col.evaluations:
            col.error("only %d of %d runs finished normally and nothing was flagged: the check would be vacuous" % (done, col.evaluations))
        if col.labels.get("taint:flows>0", 0) < 0.5 * max(1, done):
            col.error("the taint phase reported flows in only %d of %d finished runs: sources/sinks are not effective" % (
                col.labels.get("taint:flows>0", 0), done))
        if col.labels.get("pipeline-exception", 0) > 0.1 * max(1, done):
            col.error("%d of %d finished runs ended with an exception inside lian" % (col.labels.get("pipeline-exception", 0), done))
    return common.finish(ID, tier, seed, col, t0, RULE, ASSUMPTIONS,
                         extra_coverage={"families": {f: (fam.FAMILIES[f].__doc__ or "").strip() for f in sorted(fam.FAMILIES)},
                                         "sizes": {f: sizes_for(f, tier)[0] for f in sorted(fam.FAMILIES)},
                                         "open_finding_groups": sorted({g for g in GROUPS.values() if group_open(g)}),
                                         "degree": DEGREE})
