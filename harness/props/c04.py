"""C04 — every concrete execution of a method is a path in its control-flow graph.

Generated control-structure shapes (exhaustive for small sizes, sampled beyond) are rendered in each
frontend, analysed by lian (lang + P1), and every structurally possible statement sequence of every method
(harness/walker.py: all branch decisions, loops entered 0/1/2 times) must be a path of the method's CFG.
"""
import itertools
import os

from harness import common, gen_ctl, girsem, lianrun, walker
from harness.common import Collector

ID = "C04"

RULE = ("method bodies built from control shapes (if / if-else, while (+else in Python), for-in, C-style for, do-while, "
        "break, continue, return, switch/match with 2 cases and optional default, try / catch / else / finally with an optional raise at the end of the try body, nested function declarations), "
        "enumerated exhaustively up to a node bound (see coverage.enumerated) and sampled by Hypothesis up to 9 nodes / "
        "depth 3, rendered in every frontend that has the constructs; lian runs lang + P1 and for every method every path "
        "of the structural walker (all branch decisions, each loop entered 0, 1 and 2 times) is checked against the CFG: "
        "first statement is an entry node, every consecutive pair is an edge, return / fall-off reaches the exit node -1, "
        "all CFG nodes belong to the method. Non-trivial = a method with >= 2 paths and at least one loop or early exit; "
        "distinct by (shape, language).")

ASSUMPTIONS = [
    "the walker's reading of the GIR control constructs (harness/walker.py): a loop header row is (re)visited at every test of the "
    "condition, condition_prebody statements run before every test, a for_stmt runs init_body once and update_body after the body and "
    "after continue, do-while runs the body first; switch cases fall through except in Python (match) and Go; case/default rows are labels",
    "only structural feasibility: branch conditions are opaque parameters, so every decision vector is a concrete execution",
    "exceptional control flow: only explicit raise / throw statements raise (as the last statement of a try body); a raise reaches any catch "
    "clause of the enclosing try or leaves it uncaught; finally bodies run on every way out, before a pending return / break / continue proceeds",
]

BATCH = 24
# open known findings that would mask everything behind them are stepped over by not emitting the construct in
# generated cases (their dedicated replay files still exercise them on every run)
STEP_OVERS = {
    "C04-jump-through-finally": ("*", {"tryjump"}),
    "C04-python-match": ("python", {"sw"}),
    "C04-go-switch-no-fallthrough": ("go", {"sw"}),
}


def open_finding_ids():
    return {e.get("id") for e in common.load_known(ID) if e.get("status") == "open"}


def active_kinds(lang, col=None):
    kinds = set(gen_ctl.LANG_CONSTRUCTS[lang]) - {"empty"}
    for fid in sorted(open_finding_ids()):
        so = STEP_OVERS.get(fid)
        if so and so[0] in (lang, "*"):
            kinds -= so[1]
            if col is not None:
                col.stepovers["%s: %s not generated for %s" % (fid, ",".join(sorted(so[1])), lang)] += 1
    return kinds


LANGS_ALL = ["python", "javascript", "typescript", "java", "c", "go", "php"]


def desc(prog, sid):
    r = prog.by_id.get(int(sid))
    if r is None:
        return "?"
    return r["operation"]


COMPOUND = ("if_stmt", "while_stmt", "forin_stmt", "for_value_stmt", "dowhile_stmt", "for_stmt", "switch_stmt", "try_stmt",
            "break_stmt", "continue_stmt", "return_stmt")


def role(prog, sid):
    r = prog.by_id.get(int(sid))
    if r is None:
        return "?"
    return r["operation"] if r["operation"] in COMPOUND else "stmt"


def owner_context(prog, sid):
    """'<owner op>.<column>' of the block that holds statement sid."""
    r = prog.by_id.get(int(sid))
    if r is None:
        return "?"
    block = r.get("parent_stmt_id")
    # the owner of a block is the statement whose attribute holds the block id
    for o in prog.rows:
        if o["operation"] in ("block_start", "block_end"):
            continue
        for col in girsem.BODY_COLUMNS:
            v = o.get(col)
            if not girsem.isnull(v) and not isinstance(v, str) and int(v) == int(block):
                return "%s.%s" % (o["operation"], col)
    return "?"


def check_method(lang, prog, row, cfg, find_first, col, case_fn, shape_key):
    """Compare the walker's paths of one method with lian's CFG.  Returns number of paths."""
    mid = int(row["stmt_id"])
    w = walker.Walker(prog, lang)
    try:
        paths = w.method_paths(row)
    except walker.TooManyPaths:
        col.discards["too-many-paths"] += 1
        return 0, False
    if cfg is None:
        if any(t for t, o in paths):
            col.discrepancy((ID, lang, "no-cfg"), "method %s has statements but no CFG" % row.get("name"), case_fn())
        return len(paths), False
    nodes = {int(n) for n in cfg.nodes()}
    edges = {(int(e[0]), int(e[1])) for e in cfg.edges()}
    succ = {}
    for u, v in edges:
        succ.setdefault(u, set()).add(v)
    transparent = {int(r["stmt_id"]) for r in prog.rows if r["operation"] in ("case_stmt", "default_stmt")}
    own = walker.own_statement_ids(prog, row) | {mid}        # the method_decl row itself may serve as the entry node
    for n in sorted(nodes - own - {-1}):
        col.discrepancy((ID, lang, "foreign-node", desc(prog, n)), "CFG of method %s contains statement %d (%s) of another method" % (row.get("name"), n, desc(prog, n)), case_fn())
        break

    def connected(a, b):
        if (a, b) in edges:
            return True
        seen = set()
        stack = [a]
        while stack:
            x = stack.pop()
            for y in succ.get(x, ()):
                if y == b:
                    return True
                if y in transparent and y not in seen:
                    seen.add(y)
                    stack.append(y)
        return False

    firsts = {int(x) for x in find_first(cfg)} if len(nodes) else set()
    reported = set()
    for trace, outcome in paths:
        if not trace:
            continue
        if outcome not in ("fall", "return", "raise"):
            col.error("walker produced a %s outcome at method level for %s" % (outcome, shape_key))
            continue
        ids = [sid for sid, _ in trace]
        # the entry may be the method_decl row itself, or the header of a leading do-while (which lian places, as a label,
        # in front of the body it guards): both have a direct edge to the first executed statement
        via_label = any((f, ids[0]) in edges and (f == mid or desc(prog, f) == "dowhile_stmt") for f in firsts)
        if ids[0] != -1 and ids[0] not in firsts and not via_label:
            key = ("entry",)
            if key not in reported:
                reported.add(key)
                col.discrepancy((ID, lang, "entry-not-first-node", role(prog, ids[0])),
                                "first executed statement %d (%s) of %s is not an entry node %s" % (ids[0], desc(prog, ids[0]), row.get("name"), sorted(firsts)), case_fn())
        for i in range(len(ids)):
            if ids[i] != -1 and ids[i] not in nodes:
                key = ("node", ids[i])
                if key not in reported:
                    reported.add(key)
                    col.discrepancy((ID, lang, "node-missing", owner_context(prog, ids[i])),
                                    "reachable statement %d (%s in %s) is not a CFG node" % (ids[i], desc(prog, ids[i]), owner_context(prog, ids[i])), case_fn())
                continue
            if i == 0:
                continue
            a, b = ids[i - 1], ids[i]
            if a not in nodes:
                continue
            if not connected(a, b):
                key = ("edge", a, b)
                if key not in reported:
                    reported.add(key)
                    tag = trace[i][1]
                    col.discrepancy((ID, lang, "edge-missing", tag, role(prog, a)),
                                    "no edge %d (%s) -> %d (%s) [%s]" % (a, desc(prog, a), b, desc(prog, b) if b != -1 else "exit", tag), case_fn())
    return len(paths), True


def has_loop_or_exit(block):
    cs = gen_ctl.constructs_of(block)
    return bool(cs & {"wh", "fi", "fc", "dw", "rt", "br", "co", "raise"})


def run_batch(lang, blocks, col, label):
    """Render `blocks` as one file, analyse it, check each method."""
    from lian.util import util as lutil
    src = gen_ctl.render_methods(lang, blocks)
    if lang == "python":
        try:
            compile(src, "a.py", "exec")
        except SyntaxError as e:
            col.error("generator produced invalid Python (%s):\n%s" % (e, src[:600]))
            return
    fname = "A.java" if lang == "java" else "a." + gen_ctl.LANG_EXT[lang]
    res = lianrun.analyze({fname: src}, lang=lang, sub_command="semantic")
    try:
        if res.exc is not None:
            # isolate: analyse the methods one by one
            if len(blocks) > 1:
                lianrun.cleanup(res)
                for b in blocks:
                    run_batch(lang, [b], col, label)
                return
            col.evaluations += 1
            exc = res.exc
            col.discrepancy((ID, lang, "analysis-crash", type(exc).__name__, _innermost(exc)),
                            "lang+P1 fails on a generated method: %s: %s" % (type(exc).__name__, str(exc)[:200]),
                            {"lang": lang, "shapes": [blocks[0]], "source": src})
            return
        units = res.loader.get_all_unit_info()
        gir = None
        for info in units:
            gir = res.loader.get_unit_gir(info.module_id)
        if gir is None:
            col.evaluations += len(blocks)
            col.discrepancy((ID, lang, "no-gir"), "no GIR for the generated file", {"lang": lang, "shapes": list(blocks), "source": src})
            return
        prog = girsem.Program(list(gir))
        by_name = {r.get("name"): r for r in prog.rows if r["operation"] == "method_decl"}
        for i, b in enumerate(blocks):
            col.evaluations += 1
            col.labels["lang:" + lang] += 1
            col.labels[label] += 1
            row = by_name.get("m%d" % i)
            shape_key = (lang, b)

            def case_fn(b=b, i=i):
                pad = i % 6
                return {"lang": lang, "shapes": [b], "pad": pad, "source": gen_ctl.render_methods(lang, [(("s",),)] * pad + [b])}
            if row is None:
                col.discrepancy((ID, lang, "method-missing"), "method m%d is not in the GIR" % i, case_fn())
                continue
            cfg = res.loader.get_method_cfg(int(row["stmt_id"]))
            if cfg is not None and not hasattr(cfg, "nodes"):
                cfg = None
            before = set(col.buckets)
            npaths, ok = check_method(lang, prog, row, cfg, lutil.find_cfg_first_nodes, col, case_fn, shape_key)
            for sig in set(col.buckets) - before:
                if sig[2] in ("foreign-node", "entry-not-first-node") and len(blocks) > 1:
                    # may depend on the methods analysed before this one in the same run: keep the whole batch
                    col.buckets[sig]["examples"] = [{"lang": lang, "shapes": list(blocks), "pad": 0,
                                                     "source": gen_ctl.render_methods(lang, list(blocks))}]
            for c in gen_ctl.constructs_of(b):
                col.labels["construct:" + c] += 1
            if npaths >= 2 and has_loop_or_exit(b):
                col.nontriv([lang, b])
            col.extra["paths_checked"] += npaths
            if len(col.samples) < 2 and npaths >= 3:
                col.sample({"lang": lang, "shape": b, "source": gen_ctl.render_methods(lang, [b]), "paths": npaths})
    finally:
        lianrun.cleanup(res)


def _innermost(exc):
    import traceback
    tb = traceback.extract_tb(exc.__traceback__)
    for fr in reversed(tb):
        if "/lian/" in fr.filename:
            return "%s:%s" % (os.path.basename(fr.filename), fr.name)
    return "?"


def enum_shard(arg):
    lang, max_nodes, depth, shard, nshards = arg
    col = Collector()
    kinds = active_kinds(lang)
    batch = []
    n = 0
    for idx, b in enumerate(gen_ctl.all_shapes(max_nodes, depth, kinds)):
        if idx % nshards != shard:
            continue
        batch.append(b)
        n += 1
        if len(batch) >= BATCH:
            run_batch(lang, batch, col, "enumerated")
            batch = []
    if batch:
        run_batch(lang, batch, col, "enumerated")
    col.extra["enumerated:%s:<=%d" % (lang, max_nodes)] += n
    lianrun.cleanup_scratch()
    return col


def sample_shard(arg):
    lang, seed, n_examples = arg
    import hypothesis
    from hypothesis import settings, HealthCheck, strategies as st
    col = Collector()
    kinds = active_kinds(lang)

    @hypothesis.seed(seed)
    @settings(max_examples=max(1, n_examples // BATCH), deadline=None, database=None, derandomize=False, report_multiple_bugs=False,
              suppress_health_check=list(HealthCheck), phases=[hypothesis.Phase.generate])
    @hypothesis.given(st.lists(gen_ctl.shapes(kinds), min_size=BATCH, max_size=BATCH))
    def prop(blocks):
        run_batch(lang, [b for b in blocks if b], col, "sampled")
    prop()
    lianrun.cleanup_scratch()
    return col


def _tuplify(x):
    if isinstance(x, list):
        return tuple(_tuplify(y) for y in x)
    return x


def check_case(case):
    col = Collector()
    lang = case["lang"]
    blocks = [(("s",),)] * int(case.get("pad", 0)) + [_tuplify(b) for b in case["shapes"]]
    run_batch(lang, blocks, col, "replayed")
    return col


def collapse_finding(col, finding_id):
    """Discrepancies of the dedicated replay of an open finding are attributed to that finding."""
    if not finding_id or finding_id not in open_finding_ids() or not col.buckets:
        return col
    n = sum(b["count"] for b in col.buckets.values())
    first = sorted(col.buckets.items(), key=lambda kv: str(kv[0]))[0][1]
    col.buckets = {(ID, "finding", finding_id): {"count": n, "what": first["what"], "examples": first["examples"][:1]}}
    return col


def replay(path):
    rec = common.load_replay(path)
    col = collapse_finding(check_case(rec["case"]), rec.get("finding"))
    want = tuple(rec.get("signature") or ())
    rc = 0
    for sig, b in col.buckets.items():
        kind, _ = common.classify(ID, sig)
        if kind == "known" and not os.environ.get("VERIF_CONFIRM"):
            print("KNOWN-FINDING: property=%s %s" % (ID, b["what"]))
            continue
        if os.environ.get("VERIF_CONFIRM") and want and tuple(sig) != want:
            continue
        print("VIOLATION property=%s replay=%s" % (ID, path))
        print("  signature=%s %s" % (list(sig), b["what"]))
        rc = 1
    if rc == 0:
        print("%s replay %s: no unlisted discrepancy" % (ID, path))
    return rc


def main(tier, seed, t0):
    col = Collector()
    for path in common.replay_files(ID):
        rec = common.load_replay(path)
        col.merge(collapse_finding(check_case(rec["case"]), rec.get("finding")))
    nsh = common.NCPU
    args = []
    enumerated = {}
    if tier == "quick":
        plan = [("python", 4, 3)] + [(l, 3, 3) for l in LANGS_ALL if l != "python"]
        sampled = {l: 240 for l in LANGS_ALL}
        sampled["python"] = 720
    else:
        plan = [("python", 5, 3)] + [(l, 4, 3) for l in LANGS_ALL if l != "python"]
        sampled = {l: 6000 for l in LANGS_ALL}
        sampled["python"] = 20000
    for lang, mn, d in plan:
        kinds = active_kinds(lang, col)
        total = sum(1 for _ in gen_ctl.all_shapes(mn, d, kinds))
        enumerated[lang] = {"max_nodes": mn, "depth": d, "shapes": total}
        k = max(1, min(nsh, total // (BATCH * 2)))
        for s in range(k):
            args.append((lang, mn, d, s, k))
    col.merge(common.run_shards(enum_shard, args))
    sargs = []
    for lang, n in sampled.items():
        k = 2 if tier == "quick" else 8
        for s in range(k):
            sargs.append((lang, common.shard_seed(seed, 100 + len(sargs)), n // k))
    col.merge(common.run_shards(sample_shard, sargs))
    lianrun.cleanup_scratch()
    return common.finish(ID, tier, seed, col, t0, RULE, ASSUMPTIONS, exhaustive=True,
                         extra_coverage={"enumerated": enumerated,
                                         "explanation": "exhaustive over the listed shape spaces per language; larger shapes are sampled"})
