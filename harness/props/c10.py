"""C10 — taint analysis reports every explicit source-to-sink flow.

Completeness of `lian run` against dynamic ground truth: generated python projects (harness/taint_gen.py)
are executed under CPython with identity-tracking Taint objects; every (source statement, sink statement)
pair observed there must be among the flows reported by TaintAnalysis.find_flows.
"""
import json
import os

from harness import common
from harness.common import Collector
from harness import taint_gen as tg

def _cleaning(fn):
    """shard functions run in pool workers that are terminated, not exited: remove the scratch directory here"""
    import functools

    @functools.wraps(fn)
    def wrapper(arg):
        try:
            return fn(arg)
        finally:
            from harness import lianrun
            lianrun.cleanup_scratch()
    return wrapper


ID = "C10"

RULE = ("python projects of 1-3 files rendered from chain specs (<= 3 source sites, <= 3 sink sites; source kinds call / "
        "method call / parameter / field read; sink kinds call / method call / field write / record write; positions "
        "%arg0..%arg2 and %receiver; 0-4 links per chain out of ~45 link kinds: assignment, operators, parameter / "
        "keyword / method passing, return, closure, global, nonlocal, out-parameter, object field, constructor, "
        "container element, control-flow blocks run once, cross-file variants through `from m import f` and `m.f`), one "
        "simple statement per line. Ground truth = (source line, sink line) pairs recorded by executing the project "
        "under CPython with rule-driven instrumented sources/sinks (identity tracking, union on operators, only direct "
        "taint of the designated operand). Oracle: every ground-truth pair is a reported flow with source and sink "
        "statements on exactly those files and lines. Preceded by (a) hand-written one-flow calibration projects per rule "
        "kind and position and (b) a deterministic sweep of every single link kind. Non-trivial = the case has >= 1 "
        "ground-truth flow whose planted path crosses a function boundary or a field / container element; distinct by "
        "hash of (files, rules).")

ASSUMPTIONS = [
    "ground truth is a subset of what the property demands: only the identity of the source object (and unions through "
    "arithmetic operators) is tracked, containment of a tainted object in the designated operand is not demanded",
    "sources and sinks are external names injected into the builtins of the executed project (source(), srcobj.get(), "
    "srcobj.secret, sink(), snkobj.send(), snkobj.out=, {\"data\": v}); a parameter source receives its value from mkval(k)",
    "entry points: the unit initialiser %unit_init of every file; propagation rules: the python section of the shipped "
    "default_settings/propagation.yaml; the 1 MB *_from_code.yaml rule files are replaced by empty lists",
    "rule spellings are those accepted by the unchanged matcher (operation object_call, targets written \\%argN) and are "
    "pinned by replays/C10/calibration-*.json",
    "a rule kind whose calibration fails and a link kind whose single-link sweep case is missed are stepped over in the "
    "random phase (counted in step_overs) so that the search continues behind them",
]

BASE_SRC_ORDER = ["method", "field", "param", "call"]
BASE_SNK_ORDER = ["call", "method", "fieldw"]
BOUNDARY = set(tg.DESCEND_LINKS + tg.ASCEND_LINKS + [
    "global_read", "field", "ctor_field", "method_field", "static_field", "list_lit", "list_store", "list_append",
    "dict_lit", "dict_store", "dict_get", "tuple_unpack", "lambda", "call_id", "call_kw", "call_second"])


def _strip(label):
    return label.split("@", 1)[0]


# ---------------------------------------------------------------------------------------------
# one case

def site_index(case):
    sid = {(s["file"], s["line"]): s for s in case.get("sources", [])}
    tid = {(t["file"], t["line"]): t for t in case.get("sinks", [])}
    return sid, tid


def evaluate(case):
    """Run ground truth and lian.  -> dict(gt=set, flows=set, missed=sorted list, error=..., lian_exc=...)."""
    gt = tg.ground_truth(case)
    out = {"gt": gt["pairs"], "gt_error": gt["error"], "unsupported": gt.get("unsupported", []), "flows": set(),
           "missed": [], "lian_exc": None, "lian_exc_sig": None}
    if gt["error"] or out["unsupported"]:
        return out
    lr = tg.run_lian(case["files"], case["rules"])
    out["flows"] = lr["flows"]
    out["lian_exc"] = lr["exc"]
    out["lian_exc_sig"] = lr.get("exc_sig")
    out["missed"] = sorted(p for p in gt["pairs"] if p not in lr["flows"])
    return out


def pair_missed(case, role):
    """Does the (source role, sink role) pair of the case's first chain occur dynamically and go unreported?
    role = (source ordinal in chain 0, sink ordinal in chain 0).  -> True / False / None (pair not in ground truth)."""
    srcs = [s for s in case["sources"] if s["chain"] == 0]
    snks = [t for t in case["sinks"] if t["chain"] == 0]
    if role[0] >= len(srcs) or role[1] >= len(snks):
        return None
    s, t = srcs[role[0]], snks[role[1]]
    pair = (s["file"], s["line"], t["file"], t["line"])
    ev = evaluate(case)
    if ev["gt_error"] or pair not in ev["gt"]:
        return None
    return pair in ev["missed"]


def attribute(case, s, t, budget):
    """Greedy minimisation of the chain spec that planted the missed pair (s, t); returns the sorted element list
    naming what is left (link labels, non-baseline source / sink kinds, context)."""
    spec = case.get("spec")
    labels = tg.planted_paths(case).get((s["id"], t["id"]), [])
    raw = describe(case, s, t, labels, spec)
    if not spec:
        return raw, True
    if budget[0] <= 0:
        return raw, False
    ch = json.loads(json.dumps(spec["chains"][s["chain"]]))
    chain_srcs = [x for x in case["sources"] if x["chain"] == s["chain"]]
    chain_snks = [x for x in case["sinks"] if x["chain"] == s["chain"]]
    role = (chain_srcs.index(s), chain_snks.index(t))
    cur = {"nfiles": spec["nfiles"], "uniq_names": spec.get("uniq_names", False), "avoid": spec.get("avoid", []),
           "chains": [ch]}

    def fails(sp):
        if budget[0] <= 0:
            return False
        budget[0] -= 1
        try:
            c = tg.render(sp)
        except Exception:
            return False
        return pair_missed(c, role) is True

    if len(spec["chains"]) > 1:
        if not fails(cur):
            # the miss needs the other chains: keep them all and only name that
            return (sorted(set(raw[0] + ["multi-chain"])), raw[1]), True
    protected = set()
    if s.get("secondary"):
        protected.add("merge_src")
    if t is not chain_snks[-1]:
        protected.add("tee")
    changed = True
    while changed and budget[0] > 0:
        changed = False
        links = cur["chains"][0].get("links", [])
        for i, l in enumerate(links):
            if l["k"] in protected:
                continue
            cand = json.loads(json.dumps(cur))
            del cand["chains"][0]["links"][i]
            if fails(cand):
                cur = cand
                changed = True
                break
        if changed:
            continue
        c0 = cur["chains"][0]
        steps = []
        if c0.get("pre"):
            for i in range(len(c0["pre"])):
                steps.append(("pre", i))
        if c0.get("start_mod"):
            steps.append(("start_mod", None))
        if c0.get("src") not in ("method",) and not s.get("secondary"):
            steps.append(("src", None))
        if c0.get("end", "sink") != "sink" and t is chain_snks[-1]:
            steps.append(("end", None))
        if (c0.get("snk") or {}) != {"kind": "call", "pos": "arg0", "nargs": 1} and t is chain_snks[-1]:
            steps.append(("snk", None))
        if not cur.get("uniq_names"):
            steps.append(("uniq", None))
        for l_i, l in enumerate(c0.get("links", [])):
            if l.get("df"):
                steps.append(("df", l_i))
        for name, arg in steps:
            cand = json.loads(json.dumps(cur))
            k0 = cand["chains"][0]
            if name == "pre":
                del k0["pre"][arg]
            elif name == "start_mod":
                k0.pop("start_mod")
            elif name == "src":
                k0["src"] = "method"
                k0.pop("pfile", None)
            elif name == "end":
                k0["end"] = "sink"
            elif name == "snk":
                k0["snk"] = {"kind": "call", "pos": "arg0", "nargs": 1}
            elif name == "uniq":
                cand["uniq_names"] = True
            elif name == "df":
                k0["links"][arg]["df"] = 0
            if fails(cand):
                cur = cand
                changed = True
                break
    final = tg.render(cur)
    final["spec"] = cur
    fsrcs = [x for x in final["sources"] if x["chain"] == 0]
    fsnks = [x for x in final["sinks"] if x["chain"] == 0]
    if role[0] < len(fsrcs) and role[1] < len(fsnks):
        fs, ft = fsrcs[role[0]], fsnks[role[1]]
        labs = tg.planted_paths(final).get((fs["id"], ft["id"]), [])
        return describe(final, fs, ft, labs, cur), True
    return raw, True


def describe(case, s, t, labels, spec):
    """(context elements, ordered link labels) naming a planted path."""
    ctx = set()
    ch = case["chains"][s["chain"]] if case.get("chains") else {}
    for pre in ch.get("pre", []):
        ctx.add(pre)
    if ch.get("start_mod"):
        ctx.add("start_mod")
    if not s.get("secondary"):
        sl = ch.get("src_label", "src:" + s["kind"])
        if sl != "src:method":
            ctx.add(sl)
    elif s["kind"] != "method":
        ctx.add("src2:" + s["kind"])
    if (t["kind"], t["pos"]) != ("call", "arg0"):
        ctx.add("snk:%s:%s" % (t["kind"], t["pos"]))
    # an extra sink statement in the middle of the chain (link `tee`, it has no label of its own) that calls an
    # unresolved method ON the tainted value: lian treats the receiver as re-defined by the call
    tee_spec = (spec or {}).get("chains", [{}])[0 if spec and len(spec.get("chains", [])) == 1 else min(s["chain"], max(0, len((spec or {}).get("chains", [])) - 1))] if spec else {}
    if any(l.get("k") == "tee" and (l.get("snk") or {}).get("kind") == "method" and (l.get("snk") or {}).get("pos") == "receiver"
           for l in (tee_spec.get("links") or [])) and t is not None and t.get("ending", "sink") == "sink":
        ctx.add("tee:method:receiver")
    if spec is not None and not spec.get("uniq_names") and len(case["sources"]) + len(case["sinks"]) > 2:
        ctx.add("shared-names")
    # a loop at module level: the module-level statements after it (the calls that start the other chains) are
    # analysed up to three times
    if len(case.get("chains") or ()) > 1 and any(l.startswith(("for ", "while ")) for t in (case.get("files") or {}).values() for l in t.split("\n")):
        ctx.add("module-level-loop")
    return sorted(ctx), list(labels)


CALL_LIKE = {"param", "param_kw", "method_param", "call_id", "call_kw", "call_second", "ctor_field", "return",
             "pre:func", "pre:method", "src:param"}


def sig_class(desc):
    """(class, detail) of a minimised missed path.  Classes are the root causes identified by triage (see
    known_findings.json); detail names the construct.  Minimal chains of three or more links that match no
    family fall into the class 'composition' (their single links and pairs all pass)."""
    ctx, seq = desc
    ctx = set(ctx)
    if "multi-chain" in ctx:
        # the miss needs the other chains of the project (it disappears when its chain is rendered alone): named by
        # what the project has (a module-level loop) or by the link kinds of the missed chain
        if "module-level-loop" in ctx:
            return "multi-chain", "after-module-level-loop"
        return "multi-chain", "+".join(sorted({tg._strip_label(x) for x in seq})) or "direct"
    if "shared-names" in ctx:
        return "shared-names", "-"
    if "tee:method:receiver" in ctx:
        return "tainted-receiver-of-unresolved-call", "-"
    stripped = [tg._strip_label(x) for x in seq]
    if stripped and stripped[-1] in ("nest_obj2", "nest_dict2") and \
            (any(c.startswith(("pre:", "src:param")) for c in ctx) or any(x in tg.DESCEND_LINKS for x in stripped)):
        return "nested-holder-inside-function", "-"
    if "global_import" in stripped:
        ctx.discard("start_mod")
    if "global_write@mod" in seq:
        ctx = {c for c in ctx if not (c.startswith(("pre:", "src:param")) and c.endswith("@from"))}
    elems = sorted(ctx) + list(seq)
    mod_calls = [e for e in elems if e.endswith("@mod") and e.split("@")[0] in CALL_LIKE]
    if mod_calls:
        return "call-via-module-attribute", mod_calls[0]
    mod_globals = [e for e in elems if e in ("global_write@mod", "global_import@mod")]
    if mod_globals:
        return "global-via-module-attribute", mod_globals[0]
    if "global_import@from" in elems:
        return "global-imported-by-name", "global_import@from"
    fam = tg.family_of(seq, ctx)
    if fam:
        return fam, "-"
    if len(seq) + len(ctx) >= 3:
        return "composition", "%d-elements" % min(len(seq) + len(ctx), 4)
    detail = "|".join(sorted(ctx) + [">".join(seq) or "direct"])
    if ctx:
        return "in-context", detail
    return ("pair" if len(seq) == 2 else "link"), detail


def check_case(case, budget=None, memo=None):
    """-> (list of (sig, what, subcase), info dict)."""
    budget = budget if budget is not None else [40]
    ev = evaluate(case)
    out = []
    info = {"ev": ev}
    if ev["unsupported"]:
        return [((ID, "harness", "unsupported-rule"), "ground truth runtime cannot model: %s" % ev["unsupported"], case)], info
    if ev["gt_error"]:
        info["discard"] = "program-raised:" + ev["gt_error"].split(":")[0]
        return out, info
    if ev["lian_exc"]:
        sig = (ID, "crash") + tuple(ev["lian_exc_sig"] or ("?", "?"))
        out.append((sig, "lian raised %s" % ev["lian_exc"], case))
    sid, tid = site_index(case)
    for pair in ev["missed"]:
        s = sid.get((pair[0], pair[1]))
        t = tid.get((pair[2], pair[3]))
        if case.get("sig_hint"):
            elems = tuple(case["sig_hint"])
        elif s is None or t is None:
            elems = ("undeclared-site", "-")
        else:
            key = None
            if memo is not None and case.get("spec"):
                labels = tg.planted_paths(case).get((s["id"], t["id"]), [])
                ch = case["spec"]["chains"][s["chain"]]
                key = json.dumps([labels, s["kind"], t["kind"], t["pos"], [p.get("kind") for p in ch.get("pre", [])],
                                  bool(ch.get("start_mod")), len(case["spec"]["chains"]) > 1,
                                  bool(case["spec"].get("uniq_names")), s.get("secondary", False)])
            if key is not None and key in memo:
                elems = memo[key]
            else:
                desc, done = attribute(case, s, t, budget)
                elems = sig_class(desc)
                if not done and case.get("spec"):
                    elems = ("unattributed", "|".join(desc[0] + [">".join(desc[1])]))
                if key is not None:
                    memo[key] = elems
        sig = (ID, "missed") + tuple(elems)
        what = "flow %s:%d -> %s:%d happens under CPython but is not reported (reported: %s)" % (
            pair[0], pair[1], pair[2], pair[3], sorted(ev["flows"]))
        out.append((sig, what, case))
    return out, info


def nontrivial(case, ev):
    if not ev["gt"]:
        return False
    sid, tid = site_index(case)
    planted = tg.planted_paths(case)
    for pair in ev["gt"]:
        s, t = sid.get((pair[0], pair[1])), tid.get((pair[2], pair[3]))
        if s is None or t is None:
            continue
        labs = planted.get((s["id"], t["id"]), [])
        if any(_strip(l) in BOUNDARY for l in labs) or s["kind"] == "param":
            return True
    return False


def slim(case):
    """The part of a case that replay needs (literal files and rules) plus the spec for attribution."""
    keep = ("files", "rules", "param_sites", "sources", "sinks", "chains", "main", "spec", "sig_hint", "calibration",
            "variants")
    return {k: case[k] for k in keep if k in case}


# ---------------------------------------------------------------------------------------------
# calibration: one hand-written flow per rule kind / position, several spellings

def run_calibration(case):
    """case: {"calibration": kind, "variants": [{files, rules, param_sites, expect:[f,l,f,l], spelling}]}.
    -> (ok, details).  The kind is calibrated if some spelling reports its expected flow."""
    ok = False
    details = []
    for v in case["variants"]:
        exp = tuple(v["expect"])
        gt = tg.ground_truth(v)
        lr = tg.run_lian(v["files"], v["rules"])
        hit = exp in lr["flows"]
        details.append({"spelling": v.get("spelling", ""), "reported": hit, "ground_truth": exp in gt["pairs"],
                        "gt_error": gt["error"], "lian_exc": lr["exc"],
                        "no_ground_truth_expected": bool(v.get("no_ground_truth"))})
        if hit:
            ok = True
    return ok, details


def handle_calibration(col, case, failed_kinds):
    kind = case["calibration"]
    ok, details = run_calibration(case)
    col.case(len(case["variants"]))
    col.label("calibration")
    for d in details:
        if d["gt_error"] or not d["ground_truth"]:
            if not d.get("no_ground_truth_expected"):
                col.error("calibration %s spelling %r: expected flow is not in the CPython ground truth (%s)" % (
                    kind, d["spelling"], d["gt_error"]))
    col.extra["calibrated:%s" % kind] += 1 if ok else 0
    if not ok:
        failed_kinds.add(kind)
        col.discrepancy((ID, "rule-kind", kind),
                        "no spelling of rule kind %s reports its one-flow calibration project: %s" % (
                            kind, [(d["spelling"], d["reported"], d["lian_exc"]) for d in details]), slim(case))
    return ok


# ---------------------------------------------------------------------------------------------
# deterministic sweep: every link kind alone

TRIPLE_KINDS = ["param", "return", "call_id", "field", "binop_r"]


def sweep_specs(avoid_kinds):
    src = next(k for k in BASE_SRC_ORDER if ("src:" + k) not in avoid_kinds)
    specs = []

    def add(name, chain, nfiles=1):
        chain = dict(chain)
        chain.setdefault("src", src)
        chain.setdefault("end", "sink")
        chain.setdefault("snk", {"kind": "call", "pos": "arg0", "nargs": 1})
        specs.append((name, {"nfiles": nfiles, "uniq_names": True, "chains": [chain]}))
    add("direct", {"links": []})
    for k in tg.INLINE_LINKS + tg.BLOCK_LINKS:
        if k in ("merge_src", "tee"):
            continue
        add(k, {"links": [{"k": k}]})
    for k in ("nest_obj2", "nest_dict2"):       # the sink argument holds the value two levels down (always the last link)
        add(k, {"links": [{"k": k}]})
        add("assign+" + k, {"links": [{"k": "assign"}, {"k": k}]})
    add("binop_merge", {"links": [{"k": "merge_src", "src": src if src != "param" else "method"}]})
    add("tee", {"links": [{"k": "tee", "snk": {"kind": "call", "pos": "arg0", "nargs": 1}}]})
    for k in ("param", "param_kw", "method_param", "call_id", "call_kw", "call_second", "ctor_field"):
        if k in ("param", "param_kw", "method_param"):
            add(k, {"links": [{"k": k}]})
        for xf in ("from", "mod"):
            add("%s@%s" % (k, xf), {"links": [{"k": k, "df": 1, "xf": xf}]}, nfiles=2)
    add("global_read", {"links": [{"k": "closure"}]})
    add("closure", {"pre": [{"kind": "func"}], "links": [{"k": "closure"}]})
    add("return", {"pre": [{"kind": "func"}], "links": [{"k": "return"}]})
    add("return@from", {"pre": [{"kind": "func", "df": 1, "xf": "from"}], "links": [{"k": "return"}]}, nfiles=2)
    add("return@mod", {"pre": [{"kind": "func", "df": 1, "xf": "mod"}], "links": [{"k": "return"}]}, nfiles=2)
    add("return-wrap", {"links": [{"k": "return"}]})
    add("global_write", {"pre": [{"kind": "func"}], "links": [{"k": "global_write"}]})
    add("global_write@mod", {"pre": [{"kind": "func", "df": 1, "xf": "from"}], "links": [{"k": "global_write"}]}, nfiles=2)
    add("nonlocal", {"pre": [{"kind": "func"}, {"kind": "nested"}], "links": [{"k": "nonlocal"}]})
    add("out_field", {"pre": [{"kind": "func"}], "links": [{"k": "out_field"}]})
    add("global_import@from", {"start_mod": 1, "links": [{"k": "global_import", "xf": "from"}]}, nfiles=2)
    add("global_import@mod", {"start_mod": 1, "links": [{"k": "global_import", "xf": "mod"}]}, nfiles=2)
    add("pre:func", {"pre": [{"kind": "func"}], "links": []})
    add("pre:method", {"pre": [{"kind": "method"}], "links": []})
    add("pre:nested", {"pre": [{"kind": "func"}, {"kind": "nested"}], "links": []})
    for xf in ("from", "mod"):
        add("pre:func@" + xf, {"pre": [{"kind": "func", "df": 1, "xf": xf}], "links": []}, nfiles=2)
        add("pre:method@" + xf, {"pre": [{"kind": "method", "df": 1, "xf": xf}], "links": []}, nfiles=2)
        if "src:param" not in avoid_kinds:
            add("src:param@" + xf, {"src": "param", "pfile": {"kind": "param", "df": 1, "xf": xf}, "links": []}, nfiles=2)
    add("start_mod", {"start_mod": 1, "links": []}, nfiles=2)
    # the root-cause families of FAMILIES, one representative each (the pairwise sweep that defined them is
    # re-run by the thorough tier)
    add("family:loop-body-def", {"links": [{"k": "for_body"}, {"k": "assign"}]})
    add("family:loop-body-def/while", {"links": [{"k": "while_body"}, {"k": "assign"}]})
    add("family:loop-body-def/side-effect", {"pre": [{"kind": "func"}], "links": [{"k": "in_for"}, {"k": "global_write"}]})
    add("family:free-variable", {"links": [{"k": "closure"}, {"k": "assign"}]})
    add("family:free-variable/closure", {"pre": [{"kind": "func"}], "links": [{"k": "closure"}, {"k": "assign"}]})
    add("family:try-body-def>loop", {"links": [{"k": "try_body"}, {"k": "for_body"}]})
    # compositions of three links around function boundaries, source two calls deep (each item is its own class:
    # the list is fixed, so its signatures do not depend on the seed)
    import itertools
    for seq in itertools.product(TRIPLE_KINDS, repeat=3):
        add("triple:" + ">".join(seq), {"pre": [{"kind": "func"}, {"kind": "func"}], "links": [{"k": k} for k in seq]})
    return specs


def pair_specs(avoid_kinds):
    """every ordered pair of link kinds, at module level and inside a function (thorough tier)."""
    src = next(k for k in BASE_SRC_ORDER if ("src:" + k) not in avoid_kinds)
    kinds = [k for k in tg.ALL_LINKS if k not in ("merge_src", "tee", "global_import")]
    out = []
    for infunc in (False, True):
        for a in kinds:
            for b in kinds:
                ch = {"src": src, "pre": [{"kind": "func"}] if infunc else [], "links": [{"k": a}, {"k": b}],
                      "end": "sink", "snk": {"kind": "call", "pos": "arg0", "nargs": 1}}
                out.append(("pair:%s>%s%s" % (a, b, "/func" if infunc else ""),
                            {"nfiles": 1, "uniq_names": True, "chains": [ch]}))
    return out


def json_crosscheck(col, case, ev):
    """thorough tier: the flows written to taint/taint_data_flow.json by a non-quiet run are those find_flows returned"""
    lr = tg.run_lian(case["files"], case["rules"], read_json=True)
    col.extra["json_crosschecks"] += 1
    jf = lr.get("json_flows")
    if jf is None:
        if lr["flows"]:
            col.discrepancy((ID, "json", "file-missing"), "flows %s reported but taint_data_flow.json was not written" % sorted(lr["flows"]), slim(case))
        return
    if jf != lr["flows"]:
        col.discrepancy((ID, "json", "differs-from-find_flows"),
                        "taint_data_flow.json lists %s, find_flows returned %s" % (sorted(jf), sorted(lr["flows"])), slim(case))


@_cleaning
def sweep_shard(arg):
    items, avoid = arg
    col = Collector()
    budget = [60 + 4 * len(items)]
    memo = {}
    for name, spec in items:
        spec = dict(spec)
        spec["avoid"] = sorted(a for a in avoid if a.startswith(("src:", "snk:")))
        case = tg.render(spec)
        case["spec"] = spec
        if name.startswith("triple:"):
            case["sig_hint"] = ["sweep-triple", name[7:]]
        ds, info = check_case(case, budget=budget, memo=memo)
        col.case()
        col.label("sweep")
        ev = info["ev"]
        if info.get("discard") or not ev["gt"]:
            col.error("sweep item %s has no ground-truth flow (%s)" % (name, ev["gt_error"]))
        if nontrivial(case, ev):
            col.nontriv({"f": case["files"], "r": case["rules"]})
        if name.startswith("json:"):
            json_crosscheck(col, case, ev)
        for sig, what, sub in ds:
            col.discrepancy(sig, what, slim(sub))
            if sig[1] == "missed":
                col.notes.append("sweep-missed:" + json.dumps(list(sig[2:])))
    return col


# ---------------------------------------------------------------------------------------------
# random phase

def parse_sig(sigstr):
    """'ctx1|ctx2|a>b' -> (set of context elements, core)"""
    parts = [x for x in str(sigstr).split("|") if x]
    return set(parts[:-1]), (parts[-1] if parts else "")


def is_subsequence(need, seq):
    it = iter(seq)
    return all(any(x == y for y in it) for x in need)


MODULE_LOOP_MARK = "@several-chains-with-a-module-level-loop"
MULTI_MARK = "@several-chains-one-with:"


def combo_blocked(case, combos):
    """Is some chain of the case an instance of an open finding (context elements + core sequence / family)?"""
    fam_names = {n for n, _ in tg.FAMILIES}
    if MODULE_LOOP_MARK in combos:
        if len(case["chains"]) > 1 and any(l.startswith(("for ", "while ")) for t in case["files"].values() for l in t.split("\n")):
            return MODULE_LOOP_MARK
        combos = [c for c in combos if c != MODULE_LOOP_MARK]
    for mk in [c for c in combos if c.startswith(MULTI_MARK)]:
        want = set(mk[len(MULTI_MARK):].split("+"))
        if len(case["chains"]) > 1 and any(want <= {tg._strip_label(x) for x in ch["labels"]} for ch in case["chains"]):
            return mk
    combos = [c for c in combos if not c.startswith(MULTI_MARK)]
    for ci, ch in enumerate(case["chains"]):
        have = set(ch.get("pre", []))
        have.add(ch.get("src_label", "src:" + ch["src"]))
        if ch.get("start_mod"):
            have.add("start_mod")
        if len(case["chains"]) > 1:
            have.add("multi-chain")
        for t in case["sinks"]:
            if t["chain"] == ci:
                have.add("snk:%s:%s" % (t["kind"], t["pos"]))
        for s_ in case["sources"]:
            if s_["chain"] == ci and s_.get("secondary"):
                have.add("src2:" + s_["kind"])
        for sigstr in combos:
            ctx, core = parse_sig(sigstr)
            if not ctx <= have:
                continue
            if core == "direct" or is_subsequence(core.split(">"), ch["labels"]):
                return sigstr
    return None


@_cleaning
def random_shard(arg):
    seed, n_examples, avoid, combos, uniq = arg
    import hypothesis
    from hypothesis import settings, HealthCheck
    col = Collector()
    budget0 = 80 + 2 * int(n_examples)
    budget = [budget0]
    memo = {}
    avoid = sorted(avoid)
    src_kinds = [k for k in tg.SOURCE_KINDS if ("src:" + k) not in avoid] or ["method"]
    snk_kinds = [k for k in tg.SINK_KINDS if ("snk:" + k) not in avoid] or ["call"]
    for k in tg.SOURCE_KINDS:
        if ("src:" + k) in avoid:
            col.stepovers["rule-kind src:" + k] += 0
    profile = {"src_kinds": src_kinds, "snk_kinds": snk_kinds, "neg": 2}

    @hypothesis.seed(seed)
    @settings(max_examples=n_examples, deadline=None, database=None, derandomize=False, report_multiple_bugs=False,
              suppress_health_check=list(HealthCheck), phases=[hypothesis.Phase.generate])
    @hypothesis.given(tg.spec_strategy(profile))
    def prop(spec):
        spec = dict(spec)
        spec["avoid"] = avoid
        spec["uniq_names"] = bool(uniq)
        case = tg.render(spec)
        case["spec"] = spec
        for st in case.get("stepped", []):
            col.stepovers["missed " + st] += 1
        if uniq:
            col.stepovers["shared-names"] += 1
        blocked = combo_blocked(case, combos)
        if blocked:
            col.stepovers["missed " + blocked] += 1
            col.discards["stepped-over-combination"] += 1
            col.case()
            return
        ds, info = check_case(case, budget=budget, memo=memo)
        col.case()
        if info.get("discard"):
            col.discards[info["discard"]] += 1
            return
        ev = info["ev"]
        col.label(*tg.spec_labels(case))
        col.label("gt-flows:%d" % min(4, len(ev["gt"])))
        if not ev["gt"]:
            col.label("negative-program")
        if nontrivial(case, ev):
            col.nontriv({"f": case["files"], "r": case["rules"]})
            col.label("nontrivial")
        col.extra["gt_pairs"] += len(ev["gt"])
        col.extra["gt_pairs_reported"] += len(ev["gt"]) - len(ev["missed"])
        col.extra["reported_flows"] += len(ev["flows"])
        if len(col.samples) < 2 and ev["gt"]:
            col.sample({"files": case["files"], "rules": case["rules"], "ground_truth": sorted(ev["gt"]),
                        "reported": sorted(ev["flows"])})
        for sig, what, sub in ds:
            col.discrepancy(sig, what, slim(sub))

    prop()
    col.extra["attribution_runs"] += budget0 - budget[0]
    return col


# ---------------------------------------------------------------------------------------------
# entry points

def replay_one(col, case, failed_kinds):
    if "calibration" in case:
        handle_calibration(col, case, failed_kinds)
        return
    ds, info = check_case(case, budget=[40])
    col.case()
    col.label("replayed")
    if info.get("discard"):
        col.error("replay case raised under CPython: %s" % info["discard"])
    for sig, what, sub in ds:
        col.discrepancy(sig, what, slim(sub))


def replay(path):
    rec = common.load_replay(path)
    col = Collector()
    failed = set()
    replay_one(col, rec["case"], failed)
    for e in col.errors:
        print("HARNESS-ERROR: property=%s %s" % (ID, e))
    if col.errors:
        return 2
    if col.buckets:
        rc = 0
        for sig, b in sorted(col.buckets.items(), key=lambda kv: str(kv[0])):
            kind, _ = common.classify(ID, tuple(sig))
            if kind == "known" and not os.environ.get("VERIF_CONFIRM"):
                print("KNOWN-FINDING: property=%s %s" % (ID, b["what"]))
                continue
            print("VIOLATION property=%s replay=%s" % (ID, path))
            print("  signature=%s %s" % (list(sig), b["what"]))
            rc = 1
        return rc
    print("%s replay %s: holds" % (ID, path))
    return 0


@_cleaning
def replay_shard(paths):
    col = Collector()
    failed = set()
    for path in paths:
        rec = common.load_replay(path)
        replay_one(col, rec["case"], failed)
    for k in sorted(failed):
        col.notes.append("failed-kind:" + k)
    return col


def known_open_missed():
    """(class, detail) of the open 'missed' findings with an exact detail (the generator steps over them)."""
    out = []
    for e in common.load_known(ID):
        if e.get("status") != "open":
            continue
        sig = e.get("signature", [])
        if len(sig) == 4 and sig[1] == "missed" and "*" not in (sig[2], sig[3]):
            out.append((str(sig[2]), str(sig[3])))
    return out


def step_over_plan(observed):
    """observed: set of (class, detail).  -> (labels / families the builder substitutes, combinations whose cases are
    skipped, unique rule names per site?)"""
    fam_names = {n for n, _ in tg.FAMILIES}
    avoid, combos, uniq = set(), [], False
    for cls, detail in sorted(observed):
        if cls == "multi-chain" and detail == "after-module-level-loop":
            combos.append(MODULE_LOOP_MARK)     # projects with several chains and a module-level loop are skipped
        elif cls == "multi-chain":
            if detail != "*":
                combos.append(MULTI_MARK + detail)  # projects with several chains, one of them with these link kinds, are skipped
        elif cls == "shared-names":
            uniq = True
        elif cls in fam_names:
            avoid.add(cls)
        elif cls in ("composition", "unattributed", "undeclared-site"):
            continue
        elif "|" not in detail and ">" not in detail and detail not in ("direct", "-"):
            avoid.add(detail)
        elif detail.endswith("|direct") and detail.count("|") == 1 and detail.startswith(("pre:", "src:param@")):
            avoid.add(detail.split("|")[0])
        else:
            combos.append(detail)
    return avoid, combos, uniq


def main(tier, seed, t0):
    col = Collector()
    failed_kinds = set()
    # 1. committed regression inputs, calibration projects first
    files = common.replay_files(ID)
    files.sort(key=lambda p: (0 if os.path.basename(p).startswith("calibration-") else 1, p))
    ncal = sum(1 for p in files if os.path.basename(p).startswith("calibration-"))
    nsh = max(1, min(common.NCPU, len(files)))
    rp = common.run_shards(replay_shard, [files[i::nsh] for i in range(nsh)]) if files else Collector()
    for n in rp.notes:
        if n.startswith("failed-kind:"):
            failed_kinds.add(n.split(":", 1)[1])
    rp.notes = [n for n in rp.notes if not n.startswith("failed-kind:")]
    col.merge(rp)
    if ncal == 0:
        col.error("no calibration projects under replays/%s" % ID)
    avoid = set(failed_kinds)
    for k in sorted(failed_kinds):
        col.stepovers["rule-kind " + k] += 1
    if all(("src:" + k) in avoid for k in tg.SOURCE_KINDS) or all(("snk:" + k) in avoid for k in tg.SINK_KINDS):
        col.notes.append("every source kind or every sink kind failed calibration: random phase runs on the full grammar")
        avoid = set()
    # 2. every link kind alone (+ one representative per root-cause family; thorough: every ordered pair)
    items = sweep_specs(avoid)
    if tier != "quick":
        # single links once more with a non-quiet run whose taint_data_flow.json is compared with find_flows
        items.extend([("json:" + n, sp) for n, sp in items if not n.startswith(("triple:", "family:"))][:60])
        items.extend(pair_specs(avoid))
    nsh = 16 if tier == "quick" else 64       # fixed: the run must not depend on the number of cores
    per = max(1, (len(items) + nsh - 1) // nsh)
    sw = common.run_shards(sweep_shard, [(items[i:i + per], sorted(avoid)) for i in range(0, len(items), per)])
    sw.notes = [n for n in sw.notes if not n.startswith("sweep-missed:")]
    col.merge(sw)
    observed = set()
    for sig in col.buckets:
        if len(sig) == 4 and sig[1] == "missed":
            observed.add((sig[2], sig[3]))
    # what the random phase steps over: misses observed just now on this tree + open known findings
    a2, combos, uniq = step_over_plan(observed | set(known_open_missed()))
    avoid |= a2
    # 3. random chains
    total = 520 if tier == "quick" else 16000
    nsh = 16 if tier == "quick" else 64
    per = total // nsh + 1
    args = [(common.shard_seed(seed, i), per, sorted(avoid), combos, uniq) for i in range(nsh)]
    col.merge(common.run_shards(random_shard, args))
    return common.finish(ID, tier, seed, col, t0, RULE, ASSUMPTIONS,
                         extra_coverage={"stepped_over": sorted(avoid), "stepped_over_combinations": combos,
                                         "unique_rule_names_per_site": bool(uniq)})
