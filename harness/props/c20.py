"""C20 — entry points and unit initialisers are selected exactly as configured.

Generated multi-file projects x generated entry rule sets; a reference matcher (harness/c20_model.py)
gives the expected entry set E; lian's entry points, P3 roots / analysed methods and reported taint flows are
compared with E and with the call-graph closure known by construction.
"""
import json
import os
import re
import shutil
import tempfile
import traceback

from harness import common
from harness.common import Collector
from harness import c20_model as model

ID = "C20"

RULE = ("Hypothesis-built projects of 2-4 files (Python; plus a JavaScript file in ~25 % and a Java file in ~20 % of the "
        "cases; same base name in two directories, file names that are substrings of one another, names with space / dash / "
        "dot / non-ASCII) with 6-10 methods (top-level functions, instance/static/class methods, decorated and async "
        "functions, nested functions, JS functions / async functions / static class methods, Java methods with modifiers; "
        "duplicate method names across files, names that are substrings of one another), each method with its own "
        "line-unique parameter-source -> sink pair, a by-construction call graph (same-file calls, from-imports, "
        "self./Class./object calls, cycles and recursion) and optional top-level code (plain or under `if __name__ == "
        "'__main__'`, => %unit_init) x entry rule sets of 0-4 rules (+duplicates): 75 % built around a target method from "
        "matching values of a random subset of lang / unit_name / unit_path / unit_id / method_id / method_list / attrs with, "
        "in 35 %, one field replaced by a near miss; 25 % unconstrained draws; spread over entry.yaml, <x>-entry.yaml files "
        "in sub-directories, decoy files that must not be read, empty / comment-only files, and (rarely) a rule with an "
        "unknown key or a rule file that is not a list. Each case = one full `lian run` in-process, non-quiet, so that the "
        "'Analyzing' console lines and taint/taint_data_flow.json exist (rules with unit_id / method_id: a `lian lang` "
        "pre-pass reads the ids). Non-trivial = the reference matcher selects a non-empty proper subset of the project's "
        "methods (initialisers included); distinct by hash of (files, settings).")

ASSUMPTIONS = [
    "reference matcher: lang / unit_id / method_id by equality, unit_name = substring of the file's base name, unit_path = "
    "substring of the unit path lian works on (absolute path of the workspace copy), method_list = list membership, attrs = "
    "every listed attr is contained in the method's modifiers/decorators ('async' included), a rule without method-level "
    "field selects every method of the matching units (initialiser included), a rule with method_id consults nothing else at "
    "method level; this is what the comments in entry_points.py document and docs 4-2.basics.md do not contradict",
    "entry files = `entry.yaml` or `<non-empty>-...-entry.yaml` anywhere under the settings directory; the language prefix of "
    "the file name is not a documented filter and is modelled as ignored; an unknown rule key is a deliberate error_and_quit",
    "rule tokens for unit_name / unit_path contain an upper-case letter, '/' or '.', so they cannot occur in the random part of "
    "the sandbox prefix; the model nevertheless matches against the actual absolute path",
    "by-construction call graph = the calls written in the generated sources (direct calls of same-file functions and of "
    "from-imported functions, Class.static(), Class.classmethod(), obj = Class(); obj.m(), self.m(), nested function called by "
    "its outer function; JavaScript and Java: calls inside one file / class only); importing a module is NOT modelled as "
    "calling its initialiser; a module whose base name occurs twice in the project is never imported (which file "
    "`from modA import f` denotes is an import-resolution question, C07); decorated and async functions are never callees",
    "a Java unit has an initialiser exactly when it has a `package` statement (the only top-level statement that is neither a "
    "declaration nor an import)",
    "flows: only the two directions the property states are demanded: (a) both ends of every reported flow lie in methods "
    "reachable from E, (b) the own parameter->sink pair of every method reachable from E is reported; extra pairs between "
    "reachable methods are C11's matter",
    "P3 roots are observed by wrapping P3GlobalSemanticAnalysis.init_frame_stack from the harness process; analysed methods by "
    "the 'Analyzing <method N ...>' console lines",
]

PY_FILES = ["modA.py", "modB.py", "pkgA/modA.py", "pkgA/modB.py", "pkgA/subC/modA.py", "libB/modAB.py", "libB/Util.py",
            "pkgA/Util.py", "Main.py", "lib C/mod \u00dc.py", "pkg-D/mod.E.py"]
JS_FILES = ["Web/appJ.js", "Web/modA.js", "libB/modAB.js"]
JAVA_FILES = ["app/SrvA.java", "app/SrvAB.java", "libB/Util.java", "pkgA/modA.java"]
JAVA_MODS = [["public", "static"], ["public"], ["private"], ["protected", "static", "final"], [], ["static"], ["public", "final"]]
LANG_OF_EXT = {".py": "python", ".js": "javascript", ".java": "java"}
NAMES = ["run", "runner", "main", "handle", "handler", "start", "stop", "proc", "load", "save", "task", "do_run"]
DECOS = [["deco"], ["wrapD"], ["deco", "wrapD"], ["cached"]]
ATTR_TOKENS = ["staticmethod", "classmethod", "deco", "wrapD", "async", "cached", "static", "method", "class", "wrap",
               "absent", "dec", "public", "private", "final", "pub", "protected"]


DISCRIMINATORS = ["lang-substring", "lang-ignored", "unit_name-ignored", "unit_name-exact", "unit_path-ignored",
                  "unit_path-relative", "unit_id-ignored", "method_id-ignored", "method_list-ignored", "method_list-substring",
                  "attrs-ignored", "attrs-exact", "attrs-any", "always-unit_init", "never-unit_init", "file-name-default-lang",
                  "all-yaml-files-loaded", "suffix-entry.yaml-loaded", "only-top-level-entry.yaml", "first-rule-only"]


# ---------------------------------------------------------------------------------------------
# generator

def case_strategy(with_js=True):
    from hypothesis import strategies as st

    @st.composite
    def project(draw):
        nfiles = draw(st.sampled_from([2, 2, 3, 3, 4]))
        use_js = with_js and draw(st.integers(0, 3)) == 1
        use_java = with_js and draw(st.integers(0, 4)) == 1
        pool = list(PY_FILES)
        paths = []
        for _ in range(max(1, nfiles - (1 if use_js else 0) - (1 if use_java else 0))):
            p = draw(st.sampled_from(pool))
            pool.remove(p)
            paths.append(p)
        if use_js:
            paths.append(draw(st.sampled_from(JS_FILES)))
        if use_java:
            paths.append(draw(st.sampled_from(JAVA_FILES)))
        nmeth = draw(st.integers(max(6, len(paths)), 10))
        files = [{"path": p, "lang": LANG_OF_EXT[os.path.splitext(p)[1]], "init": None, "methods": []} for p in paths]
        M = {}
        # distribute methods: one per file first, then random
        owners = list(range(len(files))) + [draw(st.integers(0, len(files) - 1)) for _ in range(nmeth - len(files))]
        used_names = {i: set() for i in range(len(files))}
        for mid, fi in enumerate(owners):
            f = files[fi]
            avail = [n for n in NAMES if n not in used_names[fi]]
            name = draw(st.sampled_from(avail))
            used_names[fi].add(name)
            if f["lang"] == "javascript":
                kind = draw(st.sampled_from(["jsfunc", "jsfunc", "jsfunc", "jsasync", "jsstatic"]))
                attrs = {"jsasync": ["async"], "jsstatic": ["static"]}.get(kind, [])
                M[mid] = {"name": name, "kind": kind, "attrs": attrs, "file": f["path"],
                          "cls": "C%d" % fi if kind == "jsstatic" else None, "outer": None, "calls": []}
            elif f["lang"] == "java":
                M[mid] = {"name": name, "kind": "javameth", "attrs": list(draw(st.sampled_from(JAVA_MODS))), "file": f["path"],
                          "cls": None, "outer": None, "calls": []}
            else:
                kind = draw(st.sampled_from(["func"] * 8 + ["meth"] * 3 + ["smeth"] * 2 + ["cmeth", "dfunc", "dfunc", "afunc",
                                            "adfunc", "dsmeth", "inner", "inner"]))
                outer = None
                if kind == "inner":
                    cands = [x for x in f["methods"] if M[x]["kind"] in ("func", "dfunc", "meth")]
                    if cands:
                        outer = draw(st.sampled_from(cands))
                    else:
                        kind = "func"
                cls = None
                attrs = []
                if kind in ("meth", "smeth", "cmeth", "dsmeth"):
                    cls = "K%d" % fi
                if kind == "smeth":
                    attrs = ["staticmethod"]
                elif kind == "cmeth":
                    attrs = ["classmethod"]
                elif kind == "dsmeth":
                    attrs = draw(st.sampled_from([["deco", "staticmethod"], ["staticmethod", "deco"],
                                                  ["wrapD", "classmethod"]]))
                elif kind == "dfunc":
                    attrs = list(draw(st.sampled_from(DECOS)))
                elif kind == "afunc":
                    attrs = ["async"]
                elif kind == "adfunc":
                    attrs = ["deco", "async"]
                M[mid] = {"name": name, "kind": kind, "attrs": attrs, "file": f["path"], "cls": cls, "outer": outer,
                          "calls": []}
            f["methods"].append(mid)
        # nested functions are emitted inside their outer: `cls` of an inner is None but it lives in the outer's body
        callable_kinds = ("func", "meth", "smeth", "cmeth", "jsfunc", "jsstatic", "javameth")

        def may_call(caller_file, caller_mid, c, imported):
            cm = M[c]
            cf = next(f for f in files if f["path"] == caller_file)
            tf = next(f for f in files if f["path"] == cm["file"])
            if cm["kind"] == "inner":
                return caller_mid is not None and cm["outer"] == caller_mid
            if cm["kind"] not in callable_kinds:
                return False
            if cm["kind"] == "javameth" and "static" not in cm["attrs"]:
                return False
            if cf["lang"] != tf["lang"]:
                return False
            if cm["file"] == caller_file:
                return True
            if cf["lang"] != "python":
                return False
            if not all(part.isidentifier() for part in cm["file"][:-3].split("/")):
                return False            # not importable (space, dash, dot in the path)
            if sum(1 for f in files if os.path.basename(f["path"]) == os.path.basename(cm["file"])) > 1:
                # two modules with the same base name: which one `from modA import f` denotes depends on lian's import
                # search order (an import-resolution question, C07), so such a module is never imported here
                return False
            sym = cm["cls"] or cm["name"]
            # the imported symbol must not clash with a name defined in the importing file or imported from elsewhere
            defined = {M[x]["name"] for x in cf["methods"]} | {M[x]["cls"] for x in cf["methods"] if M[x]["cls"]}
            if sym in defined:
                return False
            if imported.get(sym, cm["file"]) != cm["file"]:
                return False
            return True

        imported = {f["path"]: {} for f in files}
        for mid in sorted(M):
            m = M[mid]
            ncalls = draw(st.sampled_from([0, 0, 0, 1, 1, 1, 2]))
            inner_kids = [x for x in M if M[x]["outer"] == mid]
            for k in inner_kids:
                if draw(st.booleans()):
                    m["calls"].append(k)
            for _ in range(ncalls):
                c = draw(st.integers(0, len(M) - 1))
                if c in m["calls"] or not may_call(m["file"], mid, c, imported[m["file"]]):
                    continue
                if M[c]["kind"] == "inner":
                    continue
                m["calls"].append(c)
                if M[c]["file"] != m["file"]:
                    imported[m["file"]][M[c]["cls"] or M[c]["name"]] = M[c]["file"]
            if m["kind"] == "meth":
                m["self_calls"] = draw(st.booleans())
        for f in files:
            if draw(st.integers(0, 9)) < 7:
                f["init"] = []
                if f["lang"] == "java":
                    continue            # the initialiser of a Java unit holds the package statement only
                if f["lang"] == "python" and draw(st.integers(0, 3)) == 1:
                    f["init_style"] = "main_guard"
                for _ in range(draw(st.sampled_from([0, 1, 1, 2]))):
                    c = draw(st.integers(0, len(M) - 1))
                    if c in f["init"] or M[c]["kind"] == "inner" or not may_call(f["path"], None, c, imported[f["path"]]):
                        continue
                    f["init"].append(c)
                    if M[c]["file"] != f["path"]:
                        imported[f["path"]][M[c]["cls"] or M[c]["name"]] = M[c]["file"]
        return {"files": files, "methods": M}

    def name_tokens(draw, paths):
        p = draw(st.sampled_from(paths))
        base = os.path.basename(p)
        stem, ext = os.path.splitext(base)
        d = os.path.dirname(p)
        opts = [base, base, stem, stem, stem[1:], stem[:-1], base[-4:], ext, stem + "X" + ext, "Zed" + ext, stem.lower(),
                base[1:]]
        if d:
            opts.append(d.split("/")[0])
        return draw(st.sampled_from(opts))

    def path_tokens(draw, paths):
        p = draw(st.sampled_from(paths))
        base = os.path.basename(p)
        d = os.path.dirname(p)
        opts = [p, p, "/" + base, "in/" + p, base, os.path.splitext(base)[0], "pkgZ/", p[:-1], "/in/" + p, "X" + p]
        if d:
            opts += [d + "/", d, d.split("/")[0] + "/", "/" + d + "/" + base, d.split("/")[-1] + "/" + base]
        return draw(st.sampled_from(opts))

    @st.composite
    def rule(draw, spec, facts):
        paths = [f["path"] for f in spec["files"]]
        names = sorted({m["name"] for m in facts})
        r = {}
        tmpl = draw(st.sampled_from(["init", "names", "names", "names", "names", "attrs", "attrs", "unit", "ids", "names+attrs",
                                     "empty"]))
        if tmpl == "empty" and draw(st.integers(0, 2)) > 0:
            tmpl = "names"
        if tmpl == "init":
            r["method_list"] = [model.INIT]
        elif tmpl in ("names", "names+attrs"):
            k = draw(st.integers(1, 3))
            ml = []
            for _ in range(k):
                kind = draw(st.integers(0, 9))
                if kind < 7:
                    ml.append(draw(st.sampled_from(names)))
                elif kind == 7:
                    ml.append(draw(st.sampled_from(names))[:-1] or "x")
                elif kind == 8:
                    ml.append(draw(st.sampled_from(["nosuch", "unit_init", "%unit", "Run"])))
                else:
                    ml.append(draw(st.sampled_from(names)) + "2")
            r["method_list"] = ml
        if tmpl in ("attrs", "names+attrs"):
            present = sorted({a for m in facts for a in m["attrs"]})
            k = draw(st.sampled_from([1, 1, 1, 2, 2, 3]))
            al = []
            for _ in range(k):
                if present and draw(st.integers(0, 2)) > 0:
                    al.append(draw(st.sampled_from(present)))
                else:
                    al.append(draw(st.sampled_from(ATTR_TOKENS)))
            r["attrs"] = al
        if tmpl == "ids":
            which = draw(st.integers(0, 3))
            if which in (0, 2):
                r["unit_id"] = draw(st.sampled_from(["$unit:" + p for p in paths] + [987654]))
            if which in (1, 2):
                r["method_id"] = draw(st.sampled_from(["$method:%d" % m["mid"] for m in facts] + [987654]))
            if which == 3:
                r["unit_id"] = draw(st.sampled_from(["$unit:" + p for p in paths]))
                r["method_list"] = [draw(st.sampled_from(names))]
        # unit-level restrictions
        force_unit = tmpl == "unit"
        if force_unit or draw(st.integers(0, 9)) < 4:
            r["lang"] = draw(st.sampled_from(["python", "python", "python", "javascript", "javascript", "java", "py", "pyth",
                                              "Python", "script", "", "go"]))
        if (force_unit and draw(st.booleans())) or draw(st.integers(0, 9)) < 3:
            r["unit_name"] = name_tokens(draw, paths)
        if (force_unit and "unit_name" not in r) or draw(st.integers(0, 9)) < 3:
            r["unit_path"] = path_tokens(draw, paths)
        return r

    @st.composite
    def directed_rule(draw, spec, facts):
        """A rule built around one target method: a random subset of fields, each with a value that matches the
        target, then (35 %) one field replaced by a near miss."""
        paths = [f["path"] for f in spec["files"]]
        langs = {f["path"]: f["lang"] for f in spec["files"]}
        names = sorted({m["name"] for m in facts})
        t = draw(st.sampled_from(facts))
        base = os.path.basename(t["file"])
        stem, ext = os.path.splitext(base)
        d = os.path.dirname(t["file"])
        r = {}
        mlevel = draw(st.sampled_from(["names", "names", "names", "names", "attrs", "attrs", "names+attrs", "none", "method_id"]))
        if mlevel in ("attrs", "names+attrs") and not t["attrs"]:
            mlevel = "names"
        if mlevel in ("names", "names+attrs"):
            ml = [t["name"]]
            for _ in range(draw(st.sampled_from([0, 0, 1, 2]))):
                ml.append(draw(st.sampled_from(names + ["nosuch"])))
            r["method_list"] = draw(st.permutations(ml))
        if mlevel in ("attrs", "names+attrs"):
            k = draw(st.integers(1, len(t["attrs"])))
            al = list(draw(st.permutations(t["attrs"])))[:k]
            if draw(st.integers(0, 3)) == 1:        # a proper substring of a modifier
                i = draw(st.integers(0, len(al) - 1))
                if len(al[i]) > 4:
                    al[i] = al[i][:draw(st.integers(3, len(al[i]) - 1))]
            r["attrs"] = al
        if mlevel == "method_id":
            r["method_id"] = "$method:%d" % t["mid"]
        ulevel = draw(st.sampled_from([["lang"], [], [], [], ["lang"], ["unit_name"], ["unit_name"], ["unit_path"], ["unit_path"],
                                       ["lang", "unit_name"], ["lang", "unit_path"], ["unit_name", "unit_path"], ["unit_id"]]))
        if mlevel == "none" and not ulevel:
            ulevel = [draw(st.sampled_from(["lang", "unit_name", "unit_path"]))]
        if "lang" in ulevel:
            r["lang"] = langs[t["file"]]
        if "unit_name" in ulevel:
            r["unit_name"] = draw(st.sampled_from([base, base, stem, stem, stem[1:], base[1:], base[-4:], ext]))
        if "unit_path" in ulevel:
            opts = [t["file"], t["file"], "/" + base, "in/" + t["file"], "/in/" + t["file"], base]
            if d:
                opts += [d + "/", d.split("/")[0] + "/", d.split("/")[-1] + "/" + base]
            r["unit_path"] = draw(st.sampled_from(opts))
        if "unit_id" in ulevel:
            r["unit_id"] = "$unit:" + t["file"]
        if draw(st.integers(0, 19)) < 7:
            k = draw(st.sampled_from(sorted(r)))
            if k == "lang":
                r[k] = draw(st.sampled_from(["py", "pyth", "Python", "java", "script", "javascript" if r[k] == "python" else "python",
                                             "go", r[k][:-1], r[k][1:]]))
            elif k == "unit_name":
                others = [os.path.basename(p) for p in paths if os.path.basename(p) != base]
                r[k] = draw(st.sampled_from([stem + "X" + ext, "Zed" + ext, stem.lower() if stem.lower() != stem else stem.upper(),
                                             base + "c", "x" + base] + others + ([d.split("/")[0]] if d else [])))
            elif k == "unit_path":
                others = [p for p in paths if p != t["file"]]
                r[k] = draw(st.sampled_from(["pkgZ/", "X" + t["file"], t["file"] + "x", "/" + t["file"].replace("/", "//")] + others +
                                            ([d + "X/"] if d else [])))
            elif k == "method_list":
                n = t["name"]
                miss = draw(st.sampled_from([n[:-1] or "x", n + "2", "nosuch", "unit_init", "%unit", n.capitalize(), n + " ", "x" + n]))
                r[k] = [miss if x == n else x for x in r[k]]
            elif k == "attrs":
                how = draw(st.integers(0, 2))
                tok = draw(st.sampled_from([a for a in ATTR_TOKENS if not any(a in e for e in t["attrs"])] or ["absent"]))
                if how == 0:
                    r[k] = r[k] + [tok]             # one listed attr holds, one does not
                elif how == 1:
                    r[k] = [tok] + r[k]
                else:
                    r[k] = [tok]
            elif k == "method_id":
                r[k] = draw(st.sampled_from([987654] + ["$method:%d" % m["mid"] for m in facts]))
            elif k == "unit_id":
                r[k] = draw(st.sampled_from([987654] + ["$unit:" + p for p in paths]))
        return r

    @st.composite
    def case(draw):
        spec = draw(project())
        files, facts = model.render_project(spec)
        nrules = draw(st.sampled_from([2, 1, 1, 1, 1, 1, 2, 2, 2, 3, 3, 4, 0]))
        rules = [draw(directed_rule(spec, facts)) if draw(st.integers(0, 3)) > 0 else draw(rule(spec, facts))
                 for _ in range(nrules)]
        if rules and draw(st.integers(0, 5)) == 0:
            rules.append(dict(draw(st.sampled_from(rules))))      # duplicate rule
        if draw(st.integers(0, 59)) == 17:
            bad = dict(draw(st.sampled_from(rules))) if rules else {}
            bad[draw(st.sampled_from(["methods", "name", "unitname", "Lang"]))] = "x"
            rules.append(bad)
        settings = []
        layout = draw(st.integers(0, 9))
        if layout < 6 or not rules:
            settings.append({"path": "entry.yaml", "rules": rules})
        else:
            extra_names = ["subA/entry.yaml", "subA/deep/entry.yaml", "python-entry.yaml", "subB/java-entry.yaml",
                           "my-own-entry.yaml", "subB/javascript-entry.yaml"]
            decoys = ["notentry.yaml", "entry.yml", "entry.yaml.bak", "-entry.yaml", "Entry.yaml", "subA/entry.yaml.d/rules.yaml",
                      "subA/-x-entry.yaml", "entry-python.yaml"]
            buckets = {}
            keep_root = draw(st.booleans())
            targets = (["entry.yaml"] if keep_root else []) + [draw(st.sampled_from(extra_names))]
            if draw(st.booleans()):
                targets.append(draw(st.sampled_from(extra_names + decoys)))
            if draw(st.integers(0, 2)) == 0:
                targets.append(draw(st.sampled_from(decoys)))
            targets = list(dict.fromkeys(targets))
            for r in rules:
                t = draw(st.sampled_from(targets))
                buckets.setdefault(t, []).append(r)
            for t in targets:
                settings.append({"path": t, "rules": buckets.get(t, [])})
            if not keep_root and draw(st.booleans()):
                settings.append({"path": "entry.yaml", "text": draw(st.sampled_from(["", "# no rules here\n", "[]\n"]))})
        if draw(st.integers(0, 11)) == 0:
            settings.append({"path": draw(st.sampled_from(["subE/entry.yaml", "empty-entry.yaml"])),
                             "text": draw(st.sampled_from(["", "# nothing\n"]))})
        if draw(st.integers(0, 79)) == 41:
            settings.append({"path": draw(st.sampled_from(["subM/entry.yaml", "subM/notentry.yaml", "go-entry.yaml"])),
                             "kind": "not-a-rule-list", "text": "lang: python\nmethod_list: [main]\n"})
        present = {f["lang"] for f in spec["files"]}
        langs = ",".join(l for l in model.LANGS if l in present)
        if langs == "python" and draw(st.integers(0, 7)) == 3:
            langs = draw(st.sampled_from(["python,javascript", "python,javascript,java"]))
        assert len({f["path"] for f in settings}) == len(settings)
        return {"kind": "project", "langs": langs, "files": files, "methods": facts,
                "units": [{"path": f["path"], "lang": f["lang"], "has_init": f["init"] is not None,
                           "init_style": f.get("init_style", "plain")} for f in spec["files"]],
                "settings": settings}

    return case()


# ---------------------------------------------------------------------------------------------
# running lian and observing

ANALYZING = re.compile(r"^Analyzing <method (\d+) name: (.*)>$", re.M)


def _lianrun():
    from harness import lianrun
    return lianrun


def _innermost_lian_frame(exc):
    tb = traceback.extract_tb(exc.__traceback__)
    for fr in reversed(tb):
        if "/lian/" in fr.filename:
            return "%s:%s" % (os.path.basename(fr.filename), fr.name)
    return "?"


def run_lian(case, settings, sub_command="run", quiet=False):
    """One in-process run.  Returns dict of observations (ids are lian's), the Result is cleaned up."""
    lianrun = _lianrun()
    import lian.core.global_semantics as gs
    base = tempfile.mkdtemp(prefix="c20-", dir=lianrun.scratch_dir())
    roots = []
    per_root = []           # [root method id, [ids of the frames initialised while this root was analysed]]
    orig = gs.P3GlobalSemanticAnalysis.init_frame_stack
    orig_frame = gs.P3GlobalSemanticAnalysis.init_compute_frame

    def rec_init(self, entry_method_id, *a, **k):
        roots.append(int(entry_method_id))
        per_root.append([int(entry_method_id), []])
        return orig(self, entry_method_id, *a, **k)

    def rec_frame(self, frame, *a, **k):
        if per_root:
            per_root[-1][1].append(int(frame.method_id))
        return orig_frame(self, frame, *a, **k)
    obs = {"base": base}
    res = None
    try:
        sd = model.write_settings_dir(os.path.join(base, "settings"), settings)
        gs.P3GlobalSemanticAnalysis.init_frame_stack = rec_init
        gs.P3GlobalSemanticAnalysis.init_compute_frame = rec_frame
        try:
            res = lianrun.analyze(case["files"], settings_dir=sd, lang=case["langs"], sub_command=sub_command,
                                  workdir=base, quiet=quiet)
        finally:
            gs.P3GlobalSemanticAnalysis.init_frame_stack = orig
            gs.P3GlobalSemanticAnalysis.init_compute_frame = orig_frame
        obs["exc"] = res.exc
        obs["stdout"] = res.stdout
        obs["stderr"] = res.stderr
        obs["roots"] = roots
        obs["per_root"] = per_root
        obs["prefix"] = os.path.join(base, "ws", "lian_workspace", "src", "in")
        if res.loader is None:
            return obs
        ld = res.loader
        # identity of lian's methods: (relative path, name, def line)
        units = {}
        methods = {}
        try:
            for u in ld.get_all_unit_info():
                rel = os.path.relpath(u.original_path, res.inputs)
                units[rel] = {"unit_id": int(u.module_id), "lang": u.lang, "unit_path": u.unit_path}
                gir = ld.get_unit_gir(u.module_id)
                if gir is None:
                    continue
                for row in gir:
                    if row.operation == "method_decl":
                        sr = row.start_row
                        line = None if sr is None or sr != sr else int(sr) + 1
                        methods[int(row.stmt_id)] = (rel, row.name, line)
        except BaseException as e:      # noqa
            obs["map_error"] = "%s: %s" % (type(e).__name__, e)
        obs["units"] = units
        obs["lian_methods"] = methods
        if sub_command != "run":
            return obs
        try:
            obs["entry_points"] = {int(x) for x in ld.get_entry_points()}
        except BaseException as e:
            obs["entry_points"] = None
            obs["map_error"] = "get_entry_points: %s" % e
        ep_file = os.path.join(res.workspace, "semantic_p1", "entry_points")
        if os.path.exists(ep_file):
            try:
                df = res.feather("semantic_p1/entry_points")
                s = set()
                for v in df["entry_points"]:
                    s |= {int(x) for x in v}
                obs["entry_points_file"] = s
            except BaseException as e:
                obs["entry_points_file"] = "unreadable: %s" % e
        else:
            obs["entry_points_file"] = None
        obs["analysed"] = [int(a) for a, _ in ANALYZING.findall(res.stdout)]
        cp = None
        try:
            cp = res.feather("semantic_p3/call_paths_p3")
        except BaseException:
            cp = None
        firsts = set()
        if cp is not None and "call_path" in cp:
            for path in cp["call_path"]:
                if len(path):
                    firsts.add(int(path[0][0]))
        obs["path_roots"] = firsts
        flows = []
        fj = os.path.join(res.workspace, "taint", "taint_data_flow.json")
        if os.path.exists(fj):
            with open(fj) as fh:
                for fl in json.load(fh):
                    flows.append((os.path.relpath(fl["source_file_path"], obs["prefix"]), int(fl["source_line"]),
                                  os.path.relpath(fl["sink_file_path"], obs["prefix"]), int(fl["sink_line"])))
        obs["flows"] = flows
        obs["no_flow_line"] = "No taint flows found." in res.stdout
        nfl = 0
        for lst in (res.flows or []):
            nfl += len(lst)
        obs["n_flow_objects"] = nfl
        return obs
    finally:
        shutil.rmtree(base, ignore_errors=True)


def run_lian_cli(case, settings):
    """The same run through a fresh interpreter (driver self-check): -> (entry ids, flows, analysed ids, rc)."""
    lianrun = _lianrun()
    import pandas as pd
    base = tempfile.mkdtemp(prefix="c20cli-", dir=lianrun.scratch_dir())
    try:
        src = os.path.join(base, "in")
        for rel, text in case["files"].items():
            p = os.path.join(src, rel)
            os.makedirs(os.path.dirname(p), exist_ok=True)
            with open(p, "w", encoding="utf-8") as fh:
                fh.write(text)
        sd = model.write_settings_dir(os.path.join(base, "settings"), settings)
        ws = os.path.join(base, "ws")
        r = lianrun.run_cli(["run", "-l", case["langs"], "-f", "-w", ws, "--nomock", "--default-settings", sd, src], cwd=base)
        prefix = os.path.join(ws, "lian_workspace", "src", "in")
        ep = os.path.join(ws, "lian_workspace", "semantic_p1", "entry_points")
        ids = set()
        if os.path.exists(ep):
            for v in pd.read_feather(ep)["entry_points"]:
                ids |= {int(x) for x in v}
        flows = []
        fj = os.path.join(ws, "lian_workspace", "taint", "taint_data_flow.json")
        if os.path.exists(fj):
            with open(fj) as fh:
                for fl in json.load(fh):
                    flows.append((os.path.relpath(fl["source_file_path"], prefix), int(fl["source_line"]),
                                  os.path.relpath(fl["sink_file_path"], prefix), int(fl["sink_line"])))
        analysed = [int(a) for a, _ in ANALYZING.findall(r.stdout)]
        return ids, flows, analysed, r.returncode
    finally:
        shutil.rmtree(base, ignore_errors=True)


def check_case(case, col=None):
    """Runs one case.  Returns (discrepancies [(sig, what)], info dict)."""
    out = []
    info = {"labels": []}
    settings = case["settings"]
    facts = case["methods"]
    by_mid = {m["mid"]: m for m in facts}
    stmt_ids = {}
    unit_ids = {}
    if model.needs_ids(settings):
        info["labels"].append("rules:ids(two-pass)")
        pre = run_lian(case, [{"path": "entry.yaml", "rules": []}], sub_command="lang", quiet=True)
        if pre.get("exc") is not None or "lian_methods" not in pre:
            return [((ID, "harness", "prepass-failed"), "pre-pass for ids failed: %r" % (pre.get("exc"),))], info
        for rel, u in pre["units"].items():
            unit_ids[rel] = u["unit_id"]
        for sid, (rel, name, line) in pre["lian_methods"].items():
            for m in facts:
                if m["file"] == rel and m["name"] == name and (m["line"] == line or m["name"] == model.INIT):
                    stmt_ids[m["mid"]] = sid
        settings = [dict(f, rules=[model.resolve_rule(r, unit_ids, stmt_ids) for r in f["rules"]]) if "rules" in f else f
                    for f in settings]
    obs = run_lian(case, settings)
    prefix = obs.get("prefix", "")
    units = {u["path"]: {"path": u["path"], "abs": os.path.join(prefix, u["path"]), "lang": u["lang"],
                         "unit_id": None} for u in case["units"]}
    rcase = dict(case, settings=settings)

    # ---- expectation
    pre_exp = model.loaded_rules(settings)
    exc = obs.get("exc")
    if pre_exp == "quit":
        info["labels"].append("outcome:malformed-rule-file=>quit")
        if not isinstance(exc, SystemExit):
            out.append(((ID, "malformed-rule-file", "no-quit"),
                        "a rule with an unknown key / a rule file that is not a list of rules did not stop the run (exc=%r)" % (exc,)))
        info["E"] = None
        return out, info
    if exc is not None:
        out.append(((ID, "crash", type(exc).__name__, _innermost_lian_frame(exc)),
                    "lian stopped with %s: %s | stderr: %s" % (type(exc).__name__, str(exc)[:200], obs.get("stderr", "")[-300:])))
        return out, info
    if obs.get("map_error") or "lian_methods" not in obs:
        out.append(((ID, "harness", "cannot-map"), "cannot read units/methods back: %s" % obs.get("map_error")))
        return out, info

    # ---- map lian ids <-> generated methods
    lm = obs["lian_methods"]
    sid_to_mid = {}
    for sid, (rel, name, line) in lm.items():
        hit = [m for m in facts if m["file"] == rel and m["name"] == name and (name == model.INIT or m["line"] == line)]
        if len(hit) == 1:
            sid_to_mid[sid] = hit[0]["mid"]
        else:
            out.append(((ID, "harness", "unexpected-lian-method"), "lian method %s %r is not a generated method" % (sid, (rel, name, line))))
    mid_to_sid = {v: k for k, v in sid_to_mid.items()}
    missing = [m for m in facts if m["mid"] not in mid_to_sid]
    if missing:
        out.append(((ID, "harness", "generated-method-not-in-gir", missing[0]["kind"]),
                    "generated method not found in lian's GIR: %r" % ([(m["file"], m["name"], m["line"]) for m in missing],)))
        return out, info
    for rel, u in obs["units"].items():
        if rel in units:
            units[rel]["unit_id"] = u["unit_id"]
            if u["unit_path"] != units[rel]["abs"]:
                out.append(((ID, "harness", "unit-path-differs"), "unit_path %r != assumed %r" % (u["unit_path"], units[rel]["abs"])))
    mfacts = [dict(m, stmt_id=mid_to_sid[m["mid"]]) for m in facts]
    rcase["methods"] = mfacts

    E = model.expected_entries(rcase, units)
    info["E"] = E
    # which single deviations from the reference matcher this case would expose (evidence of non-vacuity)
    for v in DISCRIMINATORS:
        try:
            if model.expected_entries(rcase, units, v) != E:
                info["labels"].append("discriminates:" + v)
        except Exception:
            pass
    R = model.reachable(rcase, E)
    info["R"] = R
    name_of = lambda mid: "%s:%s" % (by_mid[mid]["file"], by_mid[mid]["name"])
    fmt = lambda s: sorted(name_of(x) for x in s)

    # ---- (1) entry points
    got_ids = obs.get("entry_points")
    if got_ids is None:
        out.append(((ID, "harness", "no-entry-points"), "loader.get_entry_points failed"))
        return out, info
    unknown = [x for x in got_ids if x not in sid_to_mid]
    if unknown:
        out.append(((ID, "entry-set", "id-is-not-a-method"), "entry point ids %r are not method declarations" % unknown))
    got = {sid_to_mid[x] for x in got_ids if x in sid_to_mid}
    if got != E:
        why = model.explain(rcase, units, got)
        if why is None:
            why = "unexplained-" + ("both" if (got - E and E - got) else ("extra" if got - E else "missing"))
        out.append(((ID, "entry-set", why),
                    "entry points differ from the rule set: extra=%s missing=%s (rules=%s)" % (
                        fmt(got - E), fmt(E - got), json.dumps([f.get("rules", f.get("text")) for f in settings])[:400])))
    epf = obs.get("entry_points_file")
    if isinstance(epf, str):
        out.append(((ID, "entry-file", "unreadable"), "semantic_p1/entry_points: %s" % epf))
    else:
        fset = set() if epf is None else epf
        if fset != got_ids:
            out.append(((ID, "entry-file", "differs-from-loader"),
                        "semantic_p1/entry_points holds %s, loader.get_entry_points() %s" % (sorted(fset), sorted(got_ids))))

    # ---- (2) P3 roots and analysed methods
    roots = obs["roots"]
    rset = {sid_to_mid.get(x, -x) for x in roots}
    if len(roots) != len(set(roots)):
        out.append(((ID, "p3-roots", "started-twice"), "a root was started more than once: %r" % roots))
    if rset != E:
        if rset == got:
            pass        # already reported under entry-set; P3 faithfully follows the (wrong) entry set
        else:
            kind = "extra" if rset - E else "missing"
            out.append(((ID, "p3-roots", kind), "P3 started from %s, expected %s" % (
                sorted(name_of(x) if x in by_mid else "stmt %d" % -x for x in rset), fmt(E))))
    analysed = {sid_to_mid.get(x, -x) for x in obs["analysed"]}
    basis_E = E if got == E else got
    basis_R = model.reachable(rcase, basis_E)
    not_an = [x for x in basis_E if x not in analysed]
    if not_an:
        out.append(((ID, "p3-analysed", "selected-not-analysed", by_mid[not_an[0]]["kind"]),
                    "selected entry never analysed: %s" % fmt(not_an)))
    stray = [x for x in analysed if x not in basis_R]
    if stray:
        out.append(((ID, "p3-analysed", "unreachable-analysed"),
                    "analysed although reachable from no entry: %s (entries %s)" % (
                        sorted(name_of(x) if x in by_mid else str(x) for x in stray), fmt(basis_E))))
    unreached = [x for x in basis_R if x not in analysed and x not in basis_E]
    if unreached:
        out.append(((ID, "reach", "callee-not-analysed", by_mid[unreached[0]]["kind"]),
                    "reachable by construction but never analysed: %s (entries %s)" % (fmt(unreached), fmt(basis_E))))
    # every selected entry sees what is reachable from it: the frames initialised while root r is analysed cover the
    # by-construction closure of r (not only the union over all roots)
    if not unreached and not not_an:
        for r_sid, frames in obs.get("per_root", []):
            r = sid_to_mid.get(r_sid)
            if r is None or r not in basis_E:
                continue
            seen = {sid_to_mid.get(x, -x) for x in frames}
            lost = [x for x in model.reachable(rcase, {r}) if x not in seen and x != r]
            if lost:
                out.append(((ID, "reach", "callee-not-analysed-under-entry", by_mid[lost[0]]["kind"]),
                            "reachable from entry %s by construction but not analysed while that entry was analysed: %s "
                            "(entries in order %s)" % (name_of(r), fmt(lost), [name_of(sid_to_mid[x]) for x in roots if x in sid_to_mid])))
                break
    bad_first = [x for x in obs["path_roots"] if sid_to_mid.get(x) not in basis_E]
    if bad_first:
        out.append(((ID, "call-paths", "path-starts-outside-entries"),
                    "call_paths_p3 holds paths starting at %r, entries are %s" % (bad_first, fmt(basis_E))))

    # ---- (3) flows
    line_to_mid = {}
    for m in facts:
        if m["line"] is not None:
            line_to_mid[(m["file"], m["line"])] = m["mid"]
            line_to_mid[(m["file"], m["sink_line"])] = m["mid"]
    pairs = set()
    for (sf, sl, kf, kl) in obs["flows"]:
        a = line_to_mid.get((sf, sl))
        b = line_to_mid.get((kf, kl))
        if a is None or b is None:
            out.append(((ID, "flows", "unattributable"), "flow %r does not start/end on a generated source/sink line" % ((sf, sl, kf, kl),)))
            continue
        pairs.add((a, b))
        for x, role in ((a, "source"), (b, "sink")):
            if x not in basis_R:
                out.append(((ID, "flows", "from-unreachable-code", role),
                            "flow %s -> %s: its %s lies in a method reachable from no entry (entries %s)" % (
                                name_of(a), name_of(b), role, fmt(basis_E))))
    for x in sorted(basis_R):
        m = by_mid[x]
        if m["line"] is None:
            continue
        if (x, x) not in pairs:
            if x in analysed:
                out.append(((ID, "flows", "own-pair-missing", m["kind"]),
                            "method %s is reachable from an entry and analysed but its parameter->sink flow is not reported" % name_of(x)))
            # not analysed: already reported above under reach/selected-not-analysed
    # ---- (4) nothing selected => nothing analysed, nothing reported
    if not basis_E:
        if roots or obs["analysed"] or obs["flows"] or obs["n_flow_objects"]:
            out.append(((ID, "empty-entry-set", "work-done"),
                        "no entry selected but roots=%r analysed=%r flows=%r" % (roots, obs["analysed"], obs["flows"])))
        if not obs["no_flow_line"]:
            out.append(((ID, "empty-entry-set", "no-'No taint flows found.'-line"), "console lacks the no-flow line"))
    info["got"] = got
    info["obs_flows"] = len(obs["flows"])
    info["inproc"] = (set(got_ids), sorted(obs["flows"]), list(obs["analysed"]))
    info["settings_resolved"] = settings
    # de-duplicate signatures within a case
    seen = set()
    ded = []
    for sig, what in out:
        if sig not in seen:
            seen.add(sig)
            ded.append((sig, what))
    return ded, info


def labels_of(case, info):
    L = []
    rules = [r for f in case["settings"] for r in f.get("rules", [])]
    L.append("rules:n=%d" % len(rules))
    for r in rules:
        for k in r:
            L.append("rule-field:" + k)
        if r.get("method_list") == [model.INIT]:
            L.append("rule:unit_init-only")
        if not any(k in r for k in ("method_list", "attrs", "method_id")):
            L.append("rule:no-method-filter")
        if len(r.get("attrs", [])) > 1:
            L.append("rule:attrs>=2")
        if r.get("lang") not in (None, "", "python", "javascript"):
            L.append("rule:lang-other-or-partial")
    if len(rules) != len({json.dumps(r, sort_keys=True) for r in rules}):
        L.append("rules:duplicate")
    if len(case["settings"]) > 1:
        L.append("settings:several-files")
    if any(not model.is_entry_file(os.path.basename(f["path"])) for f in case["settings"]):
        L.append("settings:decoy-file")
    if any("text" in f for f in case["settings"]):
        L.append("settings:empty-or-comment-file")
    if "javascript" in [u["lang"] for u in case["units"]]:
        L.append("project:has-js")
    if "java" in [u["lang"] for u in case["units"]]:
        L.append("project:has-java")
    if any(u.get("init_style") == "main_guard" for u in case["units"]):
        L.append("project:init-under-main-guard")
    if any(not u["has_init"] for u in case["units"]):
        L.append("project:file-without-init")
    if any(" " in u["path"] or "-" in u["path"] for u in case["units"]):
        L.append("project:unusual-file-name")
    bases = [os.path.basename(u["path"]) for u in case["units"]]
    if len(bases) != len(set(bases)):
        L.append("project:same-base-name-in-two-dirs")
    names = [m["name"] for m in case["methods"] if m["name"] != model.INIT]
    if len(names) != len(set(names)):
        L.append("project:duplicate-method-names")
    for k in sorted({m["kind"] for m in case["methods"]}):
        L.append("project:kind:" + k)
    E = info.get("E")
    if E is not None:
        n = len(case["methods"])
        L.append("E:empty" if not E else ("E:all" if len(E) == n else "E:proper-subset"))
        R = info.get("R", set())
        if E and len(R) > len(E):
            L.append("E:closure-larger-than-E")
        called = {c for m in case["methods"] for c in m.get("calls", [])}
        if any(x not in called for x in E):
            L.append("E:selects-never-called-method")
        if any(m["name"] == model.INIT for m in case["methods"] if m["mid"] in E):
            L.append("E:has-unit_init")
    return L + info.get("labels", [])


# ---------------------------------------------------------------------------------------------
# shards

def sample_shard(arg):
    seed, n_examples, with_js = arg
    import hypothesis
    from hypothesis import settings, HealthCheck
    col = Collector()
    lianrun = _lianrun()

    @hypothesis.seed(seed)
    @settings(max_examples=n_examples, deadline=None, database=None, derandomize=False, report_multiple_bugs=False,
              suppress_health_check=list(HealthCheck), phases=[hypothesis.Phase.generate])
    @hypothesis.given(case_strategy(with_js))
    def prop(case):
        record_case(col, case, crosscheck=True)

    try:
        prop()
    finally:
        lianrun.cleanup_scratch()
    return col


def record_case(col, case, crosscheck=False):
    try:
        ds, info = check_case(case)
    except BaseException as e:
        if isinstance(e, KeyboardInterrupt):
            raise
        col.error("check_case crashed: %s\n%s" % (e, traceback.format_exc()[-1500:]))
        return
    col.case()
    for l in labels_of(case, info):
        col.label(l)
    E = info.get("E")
    if E is not None and 0 < len(E) < len(case["methods"]):
        col.nontriv(common.jhash([case["files"], case["settings"]]))
    if len(col.samples) < 2 and E:
        col.sample({"files": case["files"], "settings": case["settings"],
                    "expected_entries": sorted("%s:%s" % (m["file"], m["name"]) for m in case["methods"] if m["mid"] in E)})
    for sig, what in ds:
        if sig[1] == "harness":
            col.error("%s: %s" % (list(sig), what))
        else:
            col.discrepancy(sig, what, case)
    col.extra["flows_reported"] += info.get("obs_flows", 0)
    # driver self-check: the first case of a shard that selects something is repeated through the CLI in a fresh process
    if crosscheck and E and "inproc" in info and not col.extra["cli_crosschecks"]:
        col.extra["cli_crosschecks"] += 1
        try:
            ids, flows, analysed, rc = run_lian_cli(case, info["settings_resolved"])
            a = info["inproc"]
            if rc != 0 or ids != a[0] or sorted(flows) != a[1] or analysed != a[2]:
                col.error("in-process run and CLI run differ (rc=%s): entry ids %s vs %s, flows %s vs %s, analysed %s vs %s; case=%s" % (
                    rc, sorted(a[0]), sorted(ids), a[1], sorted(flows), a[2], analysed, json.dumps(case)[:3000]))
        except BaseException as e:
            if isinstance(e, KeyboardInterrupt):
                raise
            col.error("CLI cross-check crashed: %s" % traceback.format_exc()[-800:])


def replay(path):
    rec = common.load_replay(path)
    ds, info = check_case(rec["case"])
    _lianrun().cleanup_scratch()
    rc = 0
    for sig, what in ds:
        kind, _ = common.classify(ID, tuple(sig))
        if kind == "known" and not os.environ.get("VERIF_CONFIRM"):
            print("KNOWN-FINDING: property=%s %s" % (ID, what))
            continue
        print("VIOLATION property=%s replay=%s" % (ID, path))
        print("  signature=%s %s" % (list(sig), what))
        rc = 1
    if not ds:
        print("%s replay %s: holds" % (ID, path))
    return rc


def main(tier, seed, t0):
    col = Collector()
    for path in common.replay_files(ID):
        rec = common.load_replay(path)
        record_case(col, rec["case"])
        col.label("replayed")
    _lianrun().cleanup_scratch()
    total = 512 if tier == "quick" else 20000
    nsh = 16 if tier == "quick" else 64        # fixed: the explored set must not depend on the core count
    per = total // nsh + 1
    args = [(common.shard_seed(seed, i), per, True) for i in range(nsh)]
    col.merge(common.run_shards(sample_shard, args))
    return common.finish(ID, tier, seed, col, t0, RULE, ASSUMPTIONS)
