"""C01 — lowering Python source to GIR preserves program behaviour.

Differential oracle: CPython's output trace of the source == the reference GIR interpreter's output
trace of the GIR that lian emits for it (harness/girsem.py).
"""
import os
import sys

from harness import common, girsem, lianrun
from harness.common import Collector

ID = "C01"

RULE = ("Python programs built by a typed Hypothesis grammar (harness/gen_py.py: assignments, arithmetic / comparison / "
        "boolean / unary operators, if/elif/else, while, for-in, break/continue, functions with positional / keyword / "
        "default / keyword-only parameters, return, nested functions and closures, classes with fields and methods, "
        "lists, tuples, dicts, subscripts, slices, augmented assignment, tuple unpacking, conditional expressions), "
        "with 1-6 entry calls written as out(f(args)) at module level and out(...) calls inside. Each program is "
        "executed by CPython and its GIR by the reference interpreter; the two output traces (and whether the run "
        "ended in an error) must be equal. Non-trivial = the CPython run took a branch, ran at least one of "
        "{loop iteration, user function call, field/element access} and produced >= 2 outputs; distinct by source hash. "
        "At most one 'risky' construct class per program, so a failure is attributed to a root-cause class.")

ASSUMPTIONS = [
    "harness/girsem.py is the reading of docs/en/03.frontend/3-2.gir.md used as 'the documented meaning of the GIR instructions' "
    "(names resolve lexically with declarations hoisted as lian emits them; %unit_init runs top-level code; and/or select a value "
    "from eagerly evaluated operands; a while_stmt re-tests its condition variable at every iteration; array_write at index "
    "len(array) appends, which is how literals are lowered)",
    "list.append and the output function `out` are modelled as externals; other builtins are not generated",
    "run-time errors are compared only as 'the run ended in an error after the same outputs'",
]

LINE_BUDGET = 12000
MAX_VALUE_SIZE = 20000


class _Abort(Exception):
    pass


def run_cpython(src):
    """-> (outputs, error class name | None, stats) or raises _Abort when over budget."""
    outs = []
    stats = {"lines": 0, "calls": 0, "branches": 0, "loops": 0}
    code = compile(src, "a.py", "exec")
    seen_lines = {}

    def out(v=None):
        outs.append(girsem.canon_py(v))

    def tracer(frame, event, arg):
        if frame.f_code.co_filename != "a.py":
            return None
        if event == "call":
            stats["calls"] += 1
            return tracer
        if event == "line":
            stats["lines"] += 1
            key = (id(frame), frame.f_lineno)
            if key in seen_lines:
                stats["loops"] += 1
            seen_lines[key] = 1
            if stats["lines"] > LINE_BUDGET:
                raise _Abort("line budget")
            if stats["lines"] % 16 == 0:
                for v in frame.f_locals.values():
                    if isinstance(v, (str, list, tuple)) and len(v) > MAX_VALUE_SIZE:
                        raise _Abort("value size")
                    if isinstance(v, int) and not isinstance(v, bool) and abs(v) > 10 ** 200:
                        raise _Abort("value size")
        return tracer

    ns = {"out": out, "__name__": "__main__"}
    err = None
    old = sys.gettrace()
    sys.settrace(tracer)
    try:
        exec(code, ns)
    except _Abort:
        sys.settrace(old)
        raise
    except RecursionError:
        sys.settrace(old)
        raise _Abort("recursion")
    except MemoryError:
        sys.settrace(old)
        raise _Abort("memory")
    except Exception as e:
        err = type(e).__name__
    finally:
        sys.settrace(old)
    return outs, err, stats


def run_gir(src):
    """-> (kind, outputs, detail, interp) where kind in ok / error / oov / diverged / lowering-crash / no-gir"""
    try:
        _, rows = lianrun.lower(src, "python")
    except SystemExit as e:
        return "lowering-exit", [], "SystemExit(%r)" % (e.code,), None
    except Exception as e:
        return "lowering-crash", [], "%s: %s" % (type(e).__name__, str(e)[:200]), None
    if not rows:
        return "no-gir", [], "", None
    it = girsem.Interp(rows, "python", max_steps=60000)
    try:
        it.run_unit()
    except girsem.GirRuntimeError as e:
        return "error", it.out, str(e), it
    except girsem.OutOfVocabulary as e:
        return "oov", it.out, "%s/%s %s" % (e.op, e.column, e.detail), it
    except girsem.Diverged:
        return "diverged", it.out, "", it
    except RecursionError:
        return "error", it.out, "RecursionError", it
    return "ok", it.out, "", it


def oracle(src, risky):
    """-> (discrepancy | None, info dict)"""
    info = {}
    try:
        py_out, py_err, stats = run_cpython(src)
    except _Abort as e:
        return None, {"discard": str(e)}
    except SyntaxError as e:
        return None, {"discard": "syntax-error", "harness_error": "generator produced invalid Python: %s" % e}
    info["stats"] = stats
    info["py_out"] = py_out
    info["py_err"] = py_err
    kind, g_out, detail, it = run_gir(src)
    info["interp"] = it
    cls = risky or "core"
    if kind in ("lowering-crash", "lowering-exit", "no-gir"):
        return ((ID, "python", cls, kind), "lowering failed: %s" % detail), info
    if kind == "oov":
        return ((ID, "python", cls, "out-of-vocabulary", detail.split(" ")[0]), "GIR outside the documented vocabulary on an executed path: %s" % detail), info
    if kind == "diverged":
        return ((ID, "python", cls, "gir-diverges"), "GIR execution exceeds the step budget; CPython terminated after %d lines" % stats["lines"]), info
    n = min(len(py_out), len(g_out))
    first = next((i for i in range(n) if py_out[i] != g_out[i]), None)
    if first is not None:
        return ((ID, "python", cls, "output-mismatch"),
                "output #%d: CPython %r, GIR %r" % (first, py_out[first], g_out[first])), info
    if len(py_out) != len(g_out):
        if kind == "error" and py_err is None:
            return ((ID, "python", cls, "gir-raises"), "GIR execution fails with %s after %d outputs; CPython produced %d outputs" % (detail, len(g_out), len(py_out))), info
        return ((ID, "python", cls, "output-count"), "CPython produced %d outputs, GIR %d (py_err=%s gir=%s %s)" % (len(py_out), len(g_out), py_err, kind, detail)), info
    if (kind == "error") != (py_err is not None):
        if kind == "error":
            return ((ID, "python", cls, "gir-raises"), "GIR execution fails with %s; CPython finished normally" % detail), info
        return ((ID, "python", cls, "cpython-raises-only"), "CPython raises %s; GIR execution finished normally" % py_err), info
    return None, info


def nontrivial(stats, py_out):
    return len(py_out) >= 2 and stats["calls"] >= 1 and (stats["loops"] >= 1 or stats["calls"] >= 2)


def shard(arg):
    seed, n_examples, size = arg
    import hypothesis
    from hypothesis import settings, HealthCheck
    from harness import gen_py
    col = Collector()

    @hypothesis.seed(seed)
    @settings(max_examples=n_examples, deadline=None, database=None, derandomize=False, report_multiple_bugs=False,
              suppress_health_check=list(HealthCheck), phases=[hypothesis.Phase.generate])
    @hypothesis.given(gen_py.programs(size=size))
    def prop(p):
        src = p["source"]
        d, info = oracle(src, p["risky"])
        col.evaluations += 1
        if "discard" in info:
            col.discards[info["discard"]] += 1
            if "harness_error" in info:
                col.error(info["harness_error"] + "\n" + src)
            return
        for l in p["labels"]:
            col.labels[l] += 1
        col.labels["risky:%s" % (p["risky"] or "none")] += 1
        if info.get("py_err"):
            col.labels["ends_in_error"] += 1
        if nontrivial(info["stats"], info["py_out"]):
            col.nontriv(src)
        if len(col.samples) < 2 and len(src) < 1200 and nontrivial(info["stats"], info["py_out"]):
            col.sample({"source": src, "outputs": info["py_out"][:6]})
        it = info.get("interp")
        if it is not None:
            col.extra["gir_activations"] += len(it.activations)
        if d:
            col.discrepancy(d[0], d[1], {"source": src, "risky": p["risky"]})
    prop()
    lianrun.cleanup_scratch()
    return col


def check_case(case):
    d, info = oracle(case["source"], case.get("risky"))
    if "harness_error" in info:
        return (ID, "harness"), info["harness_error"]
    return d


def replay(path):
    rec = common.load_replay(path)
    d = check_case(rec["case"])
    if d:
        kind, _ = common.classify(ID, tuple(d[0]))
        if kind == "known" and not os.environ.get("VERIF_CONFIRM"):
            print("KNOWN-FINDING: property=%s %s" % (ID, d[1]))
            return 0
        print("VIOLATION property=%s replay=%s" % (ID, path))
        print("  signature=%s %s" % (list(d[0]), d[1]))
        return 1
    print("%s replay %s: holds" % (ID, path))
    return 0


def shrink_source(src, risky, sig):
    """Line-level ddmin that must keep the program valid Python and the signature unchanged."""
    lines = src.rstrip("\n").split("\n")

    def fails(ls):
        s = "\n".join(ls) + "\n"
        try:
            compile(s, "a.py", "exec")
        except SyntaxError:
            return False
        d = check_case({"source": s, "risky": risky})
        return d is not None and tuple(d[0]) == tuple(sig)
    out = common.ddmin(lines, fails, max_tests=150)
    return "\n".join(out) + "\n"


def main(tier, seed, t0):
    col = Collector()
    for path in common.replay_files(ID):
        rec = common.load_replay(path)
        d = check_case(rec["case"])
        col.evaluations += 1
        col.labels["replayed"] += 1
        if d:
            col.discrepancy(d[0], d[1], rec["case"])
    total = 10000 if tier == "quick" else 150000
    nsh = common.NCPU * (1 if tier == "quick" else 4)
    args = [(common.shard_seed(seed, i), total // nsh + 1, 60) for i in range(nsh)]
    col.merge(common.run_shards(shard, args))
    shrunk = 0
    for sig, b in sorted(col.buckets.items(), key=lambda kv: str(kv[0])):
        kind, _ = common.classify(ID, sig)
        if kind == "new" and tier == "thorough" and shrunk < 8:
            shrunk += 1
            ex = b["examples"][0]
            try:
                b["examples"] = [{"source": shrink_source(ex["source"], ex.get("risky"), sig), "risky": ex.get("risky")}]
            except Exception:
                pass
    lianrun.cleanup_scratch()
    return common.finish(ID, tier, seed, col, t0, RULE, ASSUMPTIONS)
