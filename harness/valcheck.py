"""Shared machinery of C08 / C09: concrete value ground truth under CPython and abstract values from lian's
P3 state space, per (line, defined variable)."""
import itertools
import os
import sys

from harness import lianrun

UNKNOWN = ("unknown",)


# ---------------------------------------------------------------------------------------------
# concrete side

def canon_c(v, depth=0):
    if isinstance(v, bool):
        return ("prim", "true" if v else "false")
    if isinstance(v, int):
        return ("prim", str(v))
    if isinstance(v, str):
        return ("prim", v)
    if v is None:
        return ("prim", "null")
    if isinstance(v, (list, tuple)):
        return ("list", tuple(sorted({canon_c(x, depth + 1) for x in v}, key=repr)))
    if hasattr(v, "__dict__") and depth < 3:
        return ("obj", type(v).__name__, tuple(sorted((k, canon_c(x, depth + 1)) for k, x in vars(v).items())))
    return ("other", type(v).__name__)


def ground_truth(prog, budget=4000):
    """Run m0 for every boolean valuation of its parameters.
    -> {(line, var): set(canon value)}, number of runs, or None if a run misbehaves."""
    src = prog["source"]
    defs = prog["defs"]
    code = compile(src, "a.py", "exec")
    truth = {}
    executed = set()
    k = prog["params"]
    runs = 0
    for vals in itertools.product([False, True], repeat=k):
        ns = {}
        exec(code, ns)
        prev = {}
        count = [0]

        def tracer(frame, event, arg):
            if frame.f_code.co_filename != "a.py":
                return None
            if event == "call":
                prev[id(frame)] = None
                return tracer
            if event in ("line", "return"):
                count[0] += 1
                if count[0] > budget:
                    raise RuntimeError("budget")
                p = prev.get(id(frame))
                if p is not None and p in defs:
                    var = defs[p]
                    if var in frame.f_locals:
                        truth.setdefault((p, var), set()).add(canon_c(frame.f_locals[var]))
                        executed.add(p)
                prev[id(frame)] = frame.f_lineno if event == "line" else None
            return tracer
        old = sys.gettrace()
        sys.settrace(tracer)
        try:
            ns["m0"](*vals)
        except Exception:
            sys.settrace(old)
            return None, runs
        finally:
            sys.settrace(old)
        runs += 1
    return truth, runs


# ---------------------------------------------------------------------------------------------
# abstract side

class Abstract:
    def __init__(self, res, recorded_status):
        from lian.common_structs import State, Symbol
        self.State = State
        self.Symbol = Symbol
        L = res.loader
        self.space = None
        self.eps = list(L.get_entry_points())
        for ep in self.eps:
            self.space = L.get_symbol_state_space_p3(ep)
        self.line_of = {}
        self.rows = {}
        self.op_of = {}
        self.class_names = {}
        for info in L.get_all_unit_info():
            gir = L.get_unit_gir(info.module_id)
            for x in gir:
                if x.operation in ("block_start", "block_end"):
                    continue
                sid = int(x.stmt_id)
                if x.start_row == x.start_row and x.start_row is not None:
                    self.line_of[sid] = int(x.start_row) + 1
                self.op_of[sid] = (x.operation, x.operator if x.operation == "assign_stmt" else None)
                if x.operation == "assign_stmt":
                    self.rows[sid] = (x.operator, x.operand, x.operand2, x.target)
                if x.operation == "class_decl":
                    self.class_names[sid] = x.name
        self.status = recorded_status       # [(context_id, {stmt_id: StmtStatus})]

    def canon_state(self, idx, depth=0, seen=()):
        s = self.space[idx]
        if not isinstance(s, self.State):
            return None
        st = int(s.state_type) if s.state_type == s.state_type else 1
        if st != 1:
            return UNKNOWN
        fields = {k: v for k, v in (s.fields or {}).items()}
        dt = s.data_type if isinstance(s.data_type, str) else ""
        if dt in ("%array",) or s.array or getattr(s, "tangping_elements", None):
            elems = set()
            if depth < 3:
                arr = s.array or []
                for cell in (arr if isinstance(arr, list) else [arr]):
                    for i in (cell if isinstance(cell, (set, list, tuple)) else [cell]):
                        c = self.canon_state(i, depth + 1)
                        if c is not None:
                            elems.add(c)
                for i in (getattr(s, "tangping_elements", None) or ()):
                    c = self.canon_state(i, depth + 1)
                    if c is not None:
                        elems.add(c)
                # elements may also be stored as integer-named fields
                for k, v in fields.items():
                    if str(k).lstrip("-").isdigit():
                        for i in v:
                            c = self.canon_state(i, depth + 1)
                            if c is not None:
                                elems.add(c)
            return ("list", tuple(sorted(elems, key=repr)))
        if fields or (dt and not dt.startswith("%")):
            fs = []
            if depth < 3 and idx not in seen:
                for k, v in sorted(fields.items()):
                    vals = set()
                    for i in v:
                        c = self.canon_state(i, depth + 1, seen + (idx,))
                        if c is not None:
                            vals.add(c)
                    fs.append((k, tuple(sorted(vals, key=repr))))
            return ("obj", dt, tuple(fs))
        val = s.value
        if isinstance(val, float) and val == int(val):
            val = str(int(val))
        return ("prim", str(val))

    def defined_values(self):
        """-> {(line, var): set(canon abstract state)} united over contexts, and the defining operation."""
        out = {}
        ops = {}
        for cid, st in self.status:
            for sid, status in st.items():
                di = status.defined_symbol
                if di is None or di < 0 or di >= len(self.space):
                    continue
                sym = self.space[di]
                if not isinstance(sym, self.Symbol):
                    continue
                line = self.line_of.get(int(sid))
                if line is None:
                    continue
                op = self.op_of.get(int(sid), ("?", None))
                if op[0] in ("variable_decl", "parameter_decl"):
                    continue
                key = (line, sym.name)
                vals = out.setdefault(key, set())
                ops[key] = op
                for si in sym.states:
                    c = self.canon_state(si)
                    if c is not None:
                        vals.add(c)
        return out, ops


def _lit(text):
    if not isinstance(text, str) or not text:
        return None
    if text[0] in "\"'":
        return text[1:-1] if len(text) >= 2 and text[-1] == text[0] else text[1:]
    if text.lstrip("-").isdigit():
        return str(int(text))
    return None


def binary_expectations(ab):
    """For every binary assign_stmt: {(line, var): set of results of all operand combinations} computed from the
    abstract values of the operands at that statement (the property's 'exactly the set of results of the operand
    combinations').  Entries are omitted when an operand is not a set of primitive constants."""
    out = {}
    bad = set()
    for cid, st in ab.status:
        for sid, status in st.items():
            row = ab.rows.get(int(sid))
            if row is None:
                continue
            operator, o1, o2, target = row
            if not isinstance(operator, str) or not isinstance(o2, str) or operator not in ("+", "-", "*"):
                continue
            line = ab.line_of.get(int(sid))
            used = list(status.used_symbols or [])
            sets = []
            for text in (o1, o2):
                lit = _lit(text)
                if lit is not None:
                    sets.append({("prim", lit, "str" if text[0] in "\"'" else "int")})
                    continue
                if not used:
                    sets.append(None)
                    continue
                sym = ab.space[used.pop(0)]
                vals = set()
                ok = isinstance(sym, ab.Symbol)
                if ok:
                    for si in sym.states:
                        s = ab.space[si]
                        c = ab.canon_state(si)
                        if c is None or c[0] != "prim":
                            ok = False
                            break
                        vals.add(("prim", c[1], "str" if s.data_type == "%string" else "int"))
                sets.append(vals if ok and vals else None)
            key = (line, target)
            if sets[0] is None or sets[1] is None:
                bad.add(key)
                continue
            res = out.setdefault(key, set())
            for a in sets[0]:
                for b in sets[1]:
                    try:
                        if a[2] == "str" or b[2] == "str":
                            if operator != "+" or a[2] != b[2]:
                                raise ValueError
                            res.add(a[1] + b[1])
                        else:
                            x, y = int(a[1]), int(b[1])
                            res.add(str({"+": x + y, "-": x - y, "*": x * y}[operator]))
                    except ValueError:
                        bad.add(key)
    for k in bad:
        out.pop(k, None)
    return out


def analyse(prog, settings_name="val-settings", extra_files=None):
    """Run lian with m0 as entry; -> (Abstract | None, result)"""
    import lian.main  # noqa
    from lian.util import loader as ld
    rec = []
    orig = ld.Loader.save_stmt_status_p3

    def wrap(self, cid, st):
        rec.append((cid, st))
        return orig(self, cid, st)
    ld.Loader.save_stmt_status_p3 = wrap
    try:
        sd = lianrun.write_settings(os.path.join(lianrun.scratch_dir(), settings_name), entry=[{"method_list": ["m0"]}])
        res = lianrun.analyze({"a.py": prog["source"]}, settings_dir=sd, lang="python")
    finally:
        ld.Loader.save_stmt_status_p3 = orig
    if res.exc is not None:
        return None, res
    try:
        return Abstract(res, rec), res
    except Exception as e:
        res.exc = e
        return None, res


# ---------------------------------------------------------------------------------------------
# relations

def covers(c, aset, depth=0):
    """Does the abstract set cover the concrete value c (C08)?"""
    if UNKNOWN in aset:
        return True
    kind = c[0]
    if kind == "prim":
        return any(a[0] == "prim" and a[1] == c[1] for a in aset)
    if kind == "obj":
        # lian keeps copy-on-write versions of an object state and resolves the newest version at each use, so the
        # version attached to an earlier definition need not list fields written later (e.g. by the constructor);
        # a field that IS listed must cover the concrete field, and field contents are checked at every field read
        for a in aset:
            if a[0] != "obj":
                continue
            if a[1] and c[1] and a[1] != c[1]:
                continue
            return True
        return False
    if kind == "list":
        for a in aset:
            if a[0] != "list":
                continue
            if all(covers(x, set(a[1]), depth + 1) for x in c[1]) or depth >= 2:
                return True
        return False
    return True


def describe(aset):
    if not aset:
        return "no-state"
    kinds = sorted({a[0] for a in aset})
    return "+".join(kinds)
