"""C15 helper: normal forms of every kind of item that goes through lian's loader.

A normal form is a plain JSON-able value (dict / list / int / str / None) that is equal for two items
exactly when they carry the same content, whatever the container types (list vs numpy array vs set,
int vs numpy.int64 vs integral float, DataModel vs list of dicts, NaN vs missing column).
EMPTY (the string) is the normal form of "nothing": None, [], an empty DataModel and an item without
rows are all EMPTY (DESIGN.md C15: "empty == absent where every caller treats them alike").

Every function accepts BOTH representations: the object handed to save_*() and the object a get_*()
returns, so that expected and observed values go through the same code.
"""
import json
import math

import numpy as np

EMPTY = "EMPTY"


def _lian():
    import builtins
    if not hasattr(builtins, "profile"):
        builtins.profile = lambda f: f
    from lian import common_structs as cs
    from lian.util.data_model import DataModel, Row
    return cs, DataModel, Row


def scalar(x):
    """Canonical scalar / nested container (number representation is not content)."""
    if x is None:
        return None
    if isinstance(x, (bool, np.bool_)):
        return bool(x)
    if isinstance(x, (int, np.integer)):
        return int(x)
    if isinstance(x, (float, np.floating)):
        if math.isnan(x):
            return None
        if float(x).is_integer():
            return int(x)
        return float(x)
    if isinstance(x, (str, np.str_)):
        return str(x)
    if isinstance(x, (list, tuple, np.ndarray)):
        return [scalar(i) for i in x]
    if isinstance(x, (set, frozenset)):
        return sorted_any(scalar(i) for i in x)
    if isinstance(x, dict):
        return {skey(k): scalar(v) for k, v in x.items()}
    return "<%s %r>" % (type(x).__name__, x)


def skey(k):
    k = scalar(k)
    return k if isinstance(k, str) else json.dumps(k)


def sorted_any(it):
    return sorted(it, key=lambda v: json.dumps(v, sort_keys=True, default=str))


def dedup(it):
    """set semantics after normalisation (lian mutates hashed nodes in place, so a python set may hold two equal ones)"""
    out = []
    for v in it:
        if v not in out:
            out.append(v)
    return sorted_any(out)


def as_set(x):
    """list/set/array of scalars -> sorted list (order and multiplicity are not content)."""
    if x is None:
        return []
    if isinstance(x, (str, int, float, np.integer, np.floating)):
        return [scalar(x)]
    out = []
    for i in x:
        v = scalar(i)
        if v not in out:
            out.append(v)
    return sorted_any(out)


def is_nothing(x):
    cs, DataModel, Row = _lian()
    if x is None:
        return True
    if isinstance(x, DataModel):
        return x._data is None or len(x) == 0
    if isinstance(x, (list, tuple, set, dict)) and len(x) == 0:
        return True
    return False


def _drop_none(d):
    return {k: v for k, v in d.items() if v is not None}


# ---------------------------------------------------------------------------------------------
# table-shaped items (GIR, scope hierarchy, export symbols): list of row dicts

def rows(x, unit_id=None):
    """saved: iterable of dicts / objects with to_dict(); got: DataModel.  Row order is content (GIR is
    ordered); a missing column and a None/NaN cell are the same."""
    cs, DataModel, Row = _lian()
    if is_nothing(x):
        return EMPTY
    out = []
    if isinstance(x, DataModel):
        for r in x:
            out.append(_drop_none(scalar(r.to_dict())))
    else:
        if hasattr(x, "space") and not isinstance(x, (list, tuple)):
            x = x.space
        for item in x:
            d = item if isinstance(item, dict) else item.to_dict()
            d = dict(d)
            if unit_id is not None and "unit_id" not in d:
                d["unit_id"] = unit_id
            out.append(_drop_none(scalar(d)))
    return out or EMPTY


def row_dict(x):
    """one Row or dict (call format / method decl format)."""
    cs, DataModel, Row = _lian()
    if x is None:
        return EMPTY
    if isinstance(x, Row):
        x = x.to_dict()
    return _drop_none(scalar(dict(x)))


# ---------------------------------------------------------------------------------------------
# dict-shaped unit-level items

def dict_of_sets(x):
    """{name: set(ids)}  (symbol_name_to_scope_ids, symbol_name_to_decl_ids, available scope ids, class members,
    used symbols, one-to-many)"""
    if is_nothing(x):
        return EMPTY
    out = {skey(k): as_set(v) for k, v in x.items()}
    return out or EMPTY


def dict_of_dicts(x):
    """{scope_id: {name: stmt_id}}"""
    if is_nothing(x):
        return EMPTY
    out = {skey(k): {skey(k2): scalar(v2) for k2, v2 in v.items()} for k, v in x.items()}
    return out or EMPTY


def decl_summary(x):
    if x is None:
        return EMPTY
    return {"symbol_name_to_scope_ids": dict_of_sets(x.symbol_name_to_scope_ids),
            "scope_id_to_symbol_info": dict_of_dicts(x.scope_id_to_symbol_info),
            "scope_id_to_available_scope_ids": dict_of_sets(x.scope_id_to_available_scope_ids)}


# ---------------------------------------------------------------------------------------------
# graphs

def weighted_edges(g, weight=scalar, node=scalar, default=0):
    """networkx graph (or wrapper with .graph) -> sorted [src, dst, weight] list.  Isolated nodes are not
    content (no loader stores them and every reader walks edges)."""
    if g is None or isinstance(g, (list, tuple)) and len(g) == 0:
        return EMPTY
    if hasattr(g, "graph") and not hasattr(g, "edges"):
        g = g.graph
    out = []
    for e in g.edges(data="weight", default=default):
        w = e[2]
        out.append([node(e[0]), node(e[1]), weight(default if w is None else w)])
    return sorted_any(out) or EMPTY


def cfg(g):
    return weighted_edges(g)


def def_node(n):
    cs, DataModel, Row = _lian()
    if isinstance(n, cs.SymbolDefNode):
        return ["sym", scalar(n.index), scalar(n.symbol_id), scalar(n.stmt_id)]
    if isinstance(n, cs.StateDefNode):
        return ["st", scalar(n.index), scalar(n.state_id), scalar(n.stmt_id)]
    return scalar(n)


def symbol_graph(g):
    return weighted_edges(g, node=def_node)


def access_path(p):
    if p is None:
        return []
    return [[scalar(a.kind), scalar(a.key), scalar(a.state_id)] for a in p]


def sfg_node(n, deep=True):
    base = [scalar(n.node_type), scalar(n.def_stmt_id), scalar(n.index), scalar(n.node_id), scalar(n.context_id)]
    if not deep:
        return base
    stmt = n.stmt
    if stmt is not None:
        try:
            stmt = _drop_none(scalar(stmt.to_dict()))
        except Exception:
            stmt = repr(stmt)
    return base + [scalar(n.name), stmt, scalar(n.line_no), scalar(n.operation), access_path(n.access_path)]


def sfg_edge(e):
    if e is None:
        return None
    return [scalar(e.edge_type), scalar(e.stmt_id), scalar(e.round), scalar(e.pos), scalar(e.name)]


def sfg(g, deep=True):
    if g is None or isinstance(g, (list, tuple)) and len(g) == 0:
        return EMPTY
    if hasattr(g, "graph") and not hasattr(g, "edges"):
        g = g.graph
    out = []
    for s, d, w in g.edges(data="weight", default=None):
        out.append([sfg_node(s, deep), sfg_node(d, deep), sfg_edge(w)])
    return sorted_any(out) or EMPTY


def call_graph(g):
    return weighted_edges(g, default=None)


def type_graph(g):
    def w(e):
        if e is None:
            return None
        if hasattr(e, "parent_name"):
            return [scalar(e.parent_name), scalar(e.name), scalar(e.parent_pos)]
        return scalar(e)
    return weighted_edges(g, weight=w, default=None)


def import_graph(g):
    if g is None:
        return EMPTY
    out = []
    for s, d, data in g.edges(data=True):
        out.append([scalar(s), scalar(d), _drop_none(scalar(dict(data)))])
    return sorted_any(out) or EMPTY


def plain_edges(g):
    if g is None:
        return EMPTY
    return sorted_any([scalar(s), scalar(d)] for s, d in g.edges) or EMPTY


# ---------------------------------------------------------------------------------------------
# method-level analysis results

def bitvec(m, with_counter=True):
    if is_nothing(m):
        return EMPTY
    bits = []
    for pos, bid in m.bit_pos_to_id.items():
        bits.append([scalar(pos), def_node(bid)])
    bits = sorted_any(bits)
    inv = sorted_any([def_node(bid), scalar(pos)] for bid, pos in m.id_to_bit_pos.items())
    if not bits and not inv:
        return EMPTY
    out = {"bit_pos_to_id": bits, "id_to_bit_pos": inv}
    if with_counter:
        out["counter"] = scalar(m.counter)
    return out


def stmt_status(d):
    if is_nothing(d):
        return EMPTY
    out = {}
    for k, s in d.items():
        out[skey(k)] = {
            "stmt_id": scalar(s.stmt_id),
            "defined_symbol": scalar(s.defined_symbol),
            "used_symbols": scalar(list(s.used_symbols)),
            "implicitly_defined_symbols": scalar(list(s.implicitly_defined_symbols)),
            "implicitly_used_symbols": scalar(list(s.implicitly_used_symbols)),
            "in_symbol_bits": dedup(def_node(n) for n in s.in_symbol_bits),
            "out_symbol_bits": dedup(def_node(n) for n in s.out_symbol_bits),
            "defined_states": as_set(s.defined_states),
            "in_state_bits": dedup(def_node(n) for n in s.in_state_bits),
            "out_state_bits": dedup(def_node(n) for n in s.out_state_bits),
            "field_name": scalar(s.field_name),
        }
    return out or EMPTY


def _fields(d):
    return {skey(k): as_set(v) if isinstance(v, (set, list, tuple, np.ndarray)) else scalar(v) for k, v in d.items()}


def space_element(e):
    cs, DataModel, Row = _lian()
    if isinstance(e, cs.Symbol):
        return {"kind": "symbol", "stmt_id": scalar(e.stmt_id), "symbol_id": scalar(e.symbol_id),
                "source_unit_id": scalar(e.source_unit_id), "name": scalar(e.name),
                "default_data_type": scalar(e.default_data_type), "states": as_set(e.states),
                "symbol_or_state": scalar(e.symbol_or_state)}
    if isinstance(e, cs.State):
        return {"kind": "state", "stmt_id": scalar(e.stmt_id), "state_id": scalar(e.state_id),
                "symbol_or_state": scalar(e.symbol_or_state), "state_type": scalar(e.state_type),
                # State.to_dict stores str(value) by design
                "data_type": scalar(e.data_type), "value": e.value if isinstance(e.value, str) else str(e.value),
                "fields": _fields(e.fields),
                "array": [as_set(a) if isinstance(a, (set, list, tuple, np.ndarray)) else scalar(a) for a in e.array],
                "tangping_flag": scalar(e.tangping_flag), "tangping_elements": as_set(e.tangping_elements),
                "source_symbol_id": scalar(e.source_symbol_id), "source_state_id": scalar(e.source_state_id),
                "access_path": access_path(e.access_path)}
    return {"kind": type(e).__name__, "repr": repr(e)}


def space(s):
    if is_nothing(s):
        return EMPTY
    out = [space_element(e) for e in s.space]
    return out or EMPTY


def defined(d):
    """{symbol_id|state_id: set(SymbolDefNode|StateDefNode|int)}"""
    if is_nothing(d):
        return EMPTY
    out = {}
    for k, v in d.items():
        out[skey(k)] = dedup(def_node(n) for n in v)
    return out or EMPTY


def param_mapping(lst):
    if is_nothing(lst):
        return EMPTY
    out = []
    for p in lst:
        pap = p.parameter_access_path
        out.append({"arg_index_in_space": scalar(p.arg_index_in_space), "arg_state_id": scalar(p.arg_state_id),
                    "arg_source_symbol_id": scalar(p.arg_source_symbol_id), "arg_access_path": access_path(p.arg_access_path),
                    "parameter_symbol_id": scalar(p.parameter_symbol_id), "parameter_type": scalar(p.parameter_type),
                    # "no path" is None when saved and the default AccessPoint() when loaded
                    "parameter_access_path": [0, "", -1] if pap is None else access_path([pap])[0],
                    "is_default_value": scalar(p.is_default_value)})
    return out or EMPTY


def def_use_summary(s):
    if s is None:
        return EMPTY
    return {"method_id": scalar(s.method_id), "parameter_symbol_ids": as_set(s.parameter_symbol_ids),
            "local_symbol_ids": as_set(s.local_symbol_ids),
            "defined_external_symbol_ids": as_set(s.defined_external_symbol_ids),
            "used_external_symbol_ids": as_set(s.used_external_symbol_ids),
            "return_symbol_ids": as_set(s.return_symbol_ids), "this_symbol_id": scalar(s.this_symbol_id)}


def method_summary(s):
    """The six symbol->indexes maps, the dynamic call statements and external_symbol_to_state are content;
    raw_to_new_index / index_to_default_value are content only for the indexes the maps refer to (that is all
    to_dict() writes: one (key, index, new_index[, default]) tuple per referenced index)."""
    if s is None:
        return EMPTY
    cs, DataModel, Row = _lian()
    key = s.key
    if isinstance(key, cs.CallSite):
        key = list(key.to_tuple())

    def dd(d):
        return {skey(k): (as_set(v) if not isinstance(v, (int, float, np.integer, np.floating)) else scalar(v)) for k, v in d.items()}
    maps = {n: dd(getattr(s, n)) for n in ("parameter_symbols", "defined_external_symbols", "used_external_symbols",
                                           "return_symbols", "key_dynamic_content", "this_symbols")}
    referenced = set()
    for m in maps.values():
        for v in m.values():
            if isinstance(v, list):
                referenced.update(v)
    param_idx = set()
    for v in maps["parameter_symbols"].values():
        if isinstance(v, list):
            param_idx.update(v)
    r2n = {skey(k): scalar(v) for k, v in s.raw_to_new_index.items()
           if scalar(k) in referenced and scalar(v) != scalar(k) and scalar(v) != -1}
    i2d = {skey(k): scalar(v) for k, v in s.index_to_default_value.items() if scalar(k) in param_idx and scalar(v) != -1}
    out = {"key": scalar(key)}
    out.update(maps)
    out.update({"dynamic_call_stmts": as_set(s.dynamic_call_stmts), "external_symbol_to_state": dd(s.external_symbol_to_state),
                "raw_to_new_index": r2n, "index_to_default_value": i2d})
    return out


def internal_callees(s):
    if is_nothing(s):
        return EMPTY
    return sorted_any([scalar(c.method_id), scalar(c.callee_type), scalar(c.stmt_id), scalar(c.callee_symbol_id),
                       scalar(c.callee_symbol_index)] for c in s) or EMPTY


def grouped_methods(g):
    if g is None:
        return EMPTY
    return {k: as_set(getattr(g, k)) for k in ("no_callees", "only_direct_callees", "mixed_direct_callees",
                                                "only_dynamic_callees", "containing_dynamic_callees",
                                                "containing_error_callees")}


def call_paths(paths):
    if is_nothing(paths):
        return EMPTY
    out = []
    for p in paths:
        out.append([scalar(list(c.to_tuple())) for c in p])
    return sorted_any(out) or EMPTY


def methods_in_class(lst):
    if is_nothing(lst):
        return EMPTY
    return sorted_any([scalar(m.unit_id), scalar(m.class_id), scalar(m.name), scalar(m.stmt_id)] for m in lst) or EMPTY


def import_nodes(nodes):
    cs, DataModel, Row = _lian()
    if is_nothing(nodes):
        return EMPTY
    if isinstance(nodes, dict):
        nodes = nodes.values()
    out = []
    for n in nodes:
        if isinstance(n, cs.SymbolNodeInImportGraph):
            out.append(scalar(list(n.to_tuple())))
        else:   # Row of the restored node table
            uid = scalar(n.unit_id)
            out.append([scalar(n.scope_id), scalar(n.symbol_type), scalar(n.symbol_id), scalar(n.symbol_name),
                        -1 if uid is None else uid])
    return sorted_any(out) or EMPTY


def id_set(x):
    if is_nothing(x):
        return EMPTY
    return as_set(x) or EMPTY


def id_list(x):
    if is_nothing(x):
        return EMPTY
    return scalar(list(x)) or EMPTY


def diff_paths(a, b, path="", out=None, limit=6):
    """Short list of the places where two normal forms differ (for messages and for signatures)."""
    if out is None:
        out = []
    if len(out) >= limit:
        return out
    if type(a) != type(b):
        out.append((path or ".", "type %s vs %s" % (type(a).__name__, type(b).__name__)))
        return out
    if isinstance(a, dict):
        for k in sorted(set(a) | set(b)):
            if k not in a:
                out.append(("%s.%s" % (path, k), "missing-in-expected"))
            elif k not in b:
                out.append(("%s.%s" % (path, k), "missing-in-observed"))
            else:
                diff_paths(a[k], b[k], "%s.%s" % (path, k), out, limit)
            if len(out) >= limit:
                break
        return out
    if isinstance(a, list):
        if len(a) != len(b):
            out.append((path or ".", "length %d vs %d" % (len(a), len(b))))
            return out
        for i, (x, y) in enumerate(zip(a, b)):
            diff_paths(x, y, "%s[%d]" % (path, i), out, limit)
            if len(out) >= limit:
                break
        return out
    if a != b:
        out.append((path or ".", "%r vs %r" % (a, b)))
    return out


def field_of(path, how=""):
    """Reduce a diff (path, description) to the field names it goes through (no indexes, no ids) plus the class of
    the difference: the root-cause class used in signatures."""
    import re
    parts = [p for p in re.split(r"[.\[\]]", path) if p and not re.fullmatch(r"-?\d+(\.\d+)?", p)]
    keep = [p for p in parts if re.fullmatch(r"[a-z_][a-z_0-9]*", p)]
    name = ".".join(keep[-2:]) if keep else "item"
    if how.startswith("length"):
        a, b = re.findall(r"\d+", how)[:2]
        cls = "fewer" if int(b) < int(a) else "more"
    elif how.startswith("type"):
        cls = "type"
    elif how.startswith("missing-in-observed"):
        cls = "missing"
    elif how.startswith("missing-in-expected"):
        cls = "extra"
    elif how:
        cls = "value"
    else:
        cls = ""
    return name + (":" + cls if cls else "")


def diff_kind(expected, observed):
    d = diff_paths(expected, observed)
    if not d:
        return "same"
    return field_of(d[0][0], d[0][1])
